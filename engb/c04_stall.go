package engb

import (
	"fmt"
	"os"
	"path/filepath"
	"syscall"
	"time"

	"verif/sim"
)

// C04.stall: `git lfs pull` scans the tree and downloads concurrently. The
// interleaving "a download (and the checkout it triggers) finishes while the
// scan has not yet reached a later path with the same content" is forced from
// outside, with a stalled read: one file whose object is already local is a
// FIFO in the working tree, so the scanning goroutine blocks reading it until
// the harness releases it - which it does only once the early downloads have
// visibly landed in the working tree (or nothing landed for a while, when the
// drawn batch size keeps the queue from dispatching before the scan ends).
// What is released into the FIFO is a local edit, so the stalled file itself
// must be left alone.
func init() {
	Register("C04.stall", runC04Stall)
}

func runC04Stall(c *Ctx) {
	t := c.T
	w := c.NewWorld(sim.Faults{})
	remote := w.InitBare("remote.git")
	u1 := filepath.Join(w.Root, "u1")
	h := NewHist(w, u1)
	h.Init()
	w.MustGit(u1, "remote", "add", "origin", remote)
	w.ConfigureClone(u1, nil)

	// tree order: st/a<i>.bin (before the stall) < st/m.bin < st/z<i>.bin
	nDistinct := 1 + t.Choose(3, "n-distinct-before")
	var contents [][]byte
	for i := 0; i < nDistinct; i++ {
		contents = append(contents, h.NewContent())
	}
	nPre := nDistinct + t.Choose(3, "n-extra-before")
	var pre []string
	for i := 0; i < nPre; i++ {
		k := i
		if i >= nDistinct {
			k = t.Choose(nDistinct, "pre-dup-of")
		}
		p := fmt.Sprintf("st/a%d.bin", i)
		h.WriteFile(p, contents[k])
		pre = append(pre, p)
	}
	mContent := h.NewContent()
	h.WriteFile("st/m.bin", mContent)
	nPost := 1 + t.Choose(4, "n-after")
	late := h.NewContent()
	for i := 0; i < nPost; i++ {
		k := t.Choose(nDistinct+2, "post-dup-of")
		var data []byte
		switch {
		case k < nDistinct:
			data = contents[k]
		case k == nDistinct:
			data = late // only seen after the stall
		default:
			data = mContent
		}
		h.WriteFile(fmt.Sprintf("st/z%d.bin", i), data)
	}
	h.commit("stall set")
	if _, code := w.Git(u1, "push", "-q", "origin", "--all"); code != 0 {
		panic(sim.HarnessError{Msg: "set-up push failed: " + w.lastOutput()})
	}
	c.Res.Nontrivial = true

	u2 := filepath.Join(w.Root, "u2")
	conc := []string{"3", "1", "8"}[t.Choose(3, "concurrency")]
	batch := []string{"1", "2", "100"}[t.Choose(3, "batch-size")]
	out, code := w.GitEnv(w.Root, []string{"GIT_LFS_SKIP_SMUDGE=1"}, "clone", "-q",
		"-c", "lfs.url="+w.LFSURL(), "-c", "lfs.transfer.maxretries=2", "-c", "lfs.transfer.maxretrydelay=0",
		"-c", "lfs.concurrenttransfers="+conc, "-c", "lfs.locksverify=false",
		"-c", "lfs.transfer.batchsize="+batch, remote, u2)
	if code != 0 {
		c.Violation("clone-failed", "fault-free clone exited %d: %s", code, firstLine(out))
		return
	}
	g2 := filepath.Join(u2, ".git")
	// the stalled file's object is local already
	op := ObjectPath(g2, Oid(mContent))
	os.MkdirAll(filepath.Dir(op), 0755)
	if err := os.WriteFile(op, mContent, 0444); err != nil {
		panic(sim.HarnessError{Msg: err.Error()})
	}
	fifo := filepath.Join(u2, "st", "m.bin")
	os.Remove(fifo)
	if err := syscall.Mkfifo(fifo, 0644); err != nil {
		panic(sim.HarnessError{Msg: "mkfifo: " + err.Error()})
	}
	defer os.Remove(fifo)

	landed := func() int {
		n := 0
		for _, p := range pre {
			st, err := os.Lstat(filepath.Join(u2, p))
			if err != nil || !st.Mode().IsRegular() {
				continue
			}
			b, _ := os.ReadFile(filepath.Join(u2, p))
			if _, _, isPtr := ParsePointer(b); !isPtr && len(b) > 0 {
				n++
			}
		}
		return n
	}
	done := make(chan struct{})
	released := make(chan string, 1)
	go func() {
		start := time.Now()
		last, lastChange := -1, start
		why := ""
		for why == "" {
			select {
			case <-done:
				released <- "never-read"
				return
			default:
			}
			n := landed()
			if n != last {
				last, lastChange = n, time.Now()
			}
			switch {
			case n > 0 && time.Since(lastChange) > 150*time.Millisecond:
				why = "released-after-early-downloads"
			case n == 0 && time.Since(start) > 400*time.Millisecond:
				why = "released-without-early-dispatch"
			case time.Since(start) > 8*time.Second:
				why = "released-by-timeout"
			default:
				time.Sleep(3 * time.Millisecond)
			}
		}
		for {
			select {
			case <-done:
				released <- "never-read"
				return
			default:
			}
			fd, err := syscall.Open(fifo, syscall.O_WRONLY|syscall.O_NONBLOCK, 0)
			if err == nil {
				syscall.Write(fd, []byte("a local edit made while pull was running\n"))
				syscall.Close(fd)
				released <- why
				return
			}
			time.Sleep(2 * time.Millisecond)
		}
	}()
	args := []string{"lfs", "pull", "origin"}
	out, code = w.Git(u2, args...)
	close(done)
	c.Probe("stall-" + <-released)

	st, err := os.Lstat(fifo)
	if err != nil || st.Mode()&os.ModeNamedPipe == 0 {
		c.Violation("clobbered-working-file", "%v replaced st/m.bin, which was not the pointer recorded for it (a FIFO delivering a local edit)", args)
		return
	}
	os.Remove(fifo)
	if msg, ok := storeIntact(g2); !ok {
		c.Violation("bad-object-stored", "after %v (exit %d): %s", args, code, msg)
		return
	}
	if code != 0 {
		c.Violation("pull-failed", "fault-free %v exited %d: %s", args, code, firstLine(out))
		return
	}
	checkWorkTree(c, w, h, u2, pathFilter{}, false, "pull with a stalled working-tree read")
	for _, s := range w.Steps {
		c.T.Note(fmt.Sprintf("%s %v %d", s.Dir, s.Args, s.Exit))
	}
}
