package engb

import (
	"bytes"
	"fmt"
	"os"
	"os/exec"
	"path/filepath"
	"sort"
	"strconv"
	"strings"
	"time"

	"verif/sim"
)

func init() {
	Register("C04", func(c *Ctx) { runC04(c, true) })
	Register("C04.nofault", func(c *Ctx) { runC04(c, false) })
}

// pathFilter is the harness's own reading of the simple include/exclude
// patterns it generates ("dir", "*.dat", "a.bin").
type pathFilter struct{ inc, exc []string }

func matchSimple(pat, p string) bool {
	switch {
	case strings.HasPrefix(pat, "*."):
		return strings.HasSuffix(p, pat[1:])
	case strings.Contains(pat, "."):
		return filepath.Base(p) == pat
	default:
		return strings.HasPrefix(p, pat+"/") || strings.Contains(p, "/"+pat+"/")
	}
}

func (f pathFilter) allows(p string) bool {
	if len(f.inc) > 0 {
		ok := false
		for _, i := range f.inc {
			if matchSimple(i, p) {
				ok = true
			}
		}
		if !ok {
			return false
		}
	}
	for _, e := range f.exc {
		if matchSimple(e, p) {
			return false
		}
	}
	return true
}

// storeIntact verifies that every object present in a local store hashes to
// its name.
func storeIntact(gitDir string) (string, bool) {
	objs := LocalObjects(gitDir)
	var oids []string
	for o := range objs {
		oids = append(oids, o)
	}
	sort.Strings(oids)
	for _, o := range oids {
		if len(o) == 64 && Oid(objs[o]) != o {
			return fmt.Sprintf("local object %s has %d bytes hashing to %s", o[:12], len(objs[o]), Oid(objs[o])[:12]), false
		}
	}
	return "", true
}

type wtFile struct {
	data []byte
	mode os.FileMode
	ok   bool
}

func readWT(dir, p string) wtFile {
	st, err := os.Lstat(filepath.Join(dir, p))
	if err != nil {
		return wtFile{}
	}
	b, _ := os.ReadFile(filepath.Join(dir, p))
	return wtFile{data: b, mode: st.Mode(), ok: true}
}

func runC04(c *Ctx, faults bool) {
	t := c.T
	w := c.NewWorld(sim.Faults{})
	remote := w.InitBare("remote.git")
	u1 := filepath.Join(w.Root, "u1")
	h := NewHist(w, u1)
	h.DayOffset = []int{30, 9, 3}[t.Choose(3, "history-age-days")]
	h.Init()
	w.MustGit(u1, "remote", "add", "origin", remote)
	w.ConfigureClone(u1, nil)
	n := 4 + t.Choose(10, "n-hist")
	for i := 0; i < n; i++ {
		h.Step()
	}
	// sometimes: many paths sharing few objects (the same content checked in
	// under many names), so that transfers complete while the tree is still
	// being scanned
	if t.Bool(1, 4, "many-duplicate-paths") {
		k := 60 + t.Choose(140, "n-duplicates")
		a, b := h.NewContent(), h.NewContent()
		for i := 0; i < k; i++ {
			data := a
			if i%7 == 3 {
				data = b
			}
			h.WriteFile(fmt.Sprintf("many/dup%03d.bin", i), data)
		}
		h.commit("many duplicates")
	}
	if _, code := w.Git(u1, "push", "-q", "origin", "--all"); code != 0 {
		panic(sim.HarnessError{Msg: "set-up push failed: " + w.lastOutput()})
	}
	w.Git(u1, "push", "-q", "origin", "--tags")
	c.Res.Nontrivial = true
	// every object the history references is now on the server (C03's business)
	if faults {
		var f sim.Faults
		f.Batch5xx = pickRateB(t, "batch5xx", 1, 5)
		f.Get5xx = pickRateB(t, "get5xx", 1, 4)
		f.Get4xx = pickRateB(t, "get4xx", 1, 8)
		f.ObjError = pickRateB(t, "objerror", 1, 8)
		f.GetFlip = pickRateB(t, "getflip", 1, 6)
		f.GetPrefix = pickRateB(t, "getprefix", 1, 6)
		f.GetExtra = pickRateB(t, "getextra", 1, 8)
		f.GetOther = pickRateB(t, "getother", 1, 8)
		f.GetCut = pickRateB(t, "getcut", 1, 6)
		w.Srv.F = f
	}
	u2 := filepath.Join(w.Root, "u2")
	skip := t.Choose(3, "clone-skip-smudge") == 0
	var env []string
	if skip {
		env = []string{"GIT_LFS_SKIP_SMUDGE=1"}
	}
	conc := []string{"3", "1", "8"}[t.Choose(3, "concurrency")]
	cloneRef := h.Branches[t.Choose(len(h.Branches), "clone-branch")]
	// the clone may borrow from a reference repository whose LFS store holds
	// every object (git clone --reference: .git/objects/info/alternates)
	cloneArgs := []string{"clone", "-q", "-b", cloneRef}
	if t.Bool(1, 4, "clone-with-reference-repository") {
		cloneArgs = append(cloneArgs, "--reference", u1)
		c.refStore = LocalObjects(filepath.Join(u1, ".git"))
		c.Probe("clone-with-reference-repository")
	}
	cloneOut, code := w.GitEnv(w.Root, env, append(cloneArgs,
		"-c", "lfs.url="+w.LFSURL(), "-c", "lfs.transfer.maxretries=2", "-c", "lfs.transfer.maxretrydelay=0",
		"-c", "lfs.concurrenttransfers="+conc, "-c", "lfs.locksverify=false",
		"-c", "lfs.transfer.batchsize="+[]string{"100", "1", "2"}[t.Choose(3, "batch-size")], remote, u2)...)
	g2 := filepath.Join(u2, ".git")
	if code != 0 {
		c.Probe("clone-failed")
		if !faults {
			c.Violation("clone-failed", "fault-free clone exited %d: %s", code, firstLine(cloneOut))
		}
		if _, err := os.Stat(g2); err == nil {
			if msg, ok := storeIntact(g2); !ok {
				c.Violation("bad-object-stored", "after a failed clone: %s", msg)
			}
		}
		return
	}
	c.Probe("clone-ok")
	if msg, ok := storeIntact(g2); !ok {
		c.Violation("bad-object-stored", "after clone: %s", msg)
		return
	}
	checkWorkTree(c, w, h, u2, pathFilter{}, skip, "clone")
	if c.Res.Class != "" {
		return
	}
	nops := 1 + t.Choose(6, "n-ops")
	for i := 0; i < nops && c.Res.Class == ""; i++ {
		c04Op(c, w, h, u2, faults)
	}
	for _, s := range w.Steps {
		c.T.Note(fmt.Sprintf("%s %v %d", s.Dir, s.Args, s.Exit))
	}
}

// checkWorkTree: every LFS pointer of HEAD's tree selected by the filter has a
// valid local object and the original bytes in the working tree; with skip the
// files are pointers.
func checkWorkTree(c *Ctx, w *World, h *Hist, dir string, f pathFilter, skip bool, what string) {
	g := filepath.Join(dir, ".git")
	local := LocalObjects(g)
	ptrs := w.TreePointers(dir, "HEAD")
	var paths []string
	for p := range ptrs {
		paths = append(paths, p)
	}
	sort.Strings(paths)
	for _, p := range paths {
		pr := ptrs[p]
		// Is this path LFS-filtered in the checked out tree? Ask git.
		attr, _ := w.GitQ(dir, "check-attr", "filter", "--", p)
		if !strings.HasSuffix(strings.TrimSpace(attr), "filter: lfs") {
			continue
		}
		wt := readWT(dir, p)
		if !wt.ok {
			continue
		}
		if skip || !f.allows(p) {
			c.Probe("skipped-file-checked")
			if string(wt.data) != PointerText(pr.Oid, pr.Size) {
				// a present object may legitimately have been smudged from the local store
				if want, ok := h.Contents[pr.Oid]; ok && bytes.Equal(wt.data, want) {
					continue
				}
				c.Violation("skipped-file-not-a-pointer", "after %s, %s (excluded or smudge skipped) is neither the pointer for %s nor its content (%d bytes)", what, p, pr.Oid[:12], len(wt.data))
				return
			}
			continue
		}
		c.Probe("materialised-file-checked")
		if pr.Size == 0 {
			continue
		}
		obj, has := local[pr.Oid]
		if !has {
			c.Violation("object-missing-after-success", "after %s (exit 0), %s points to %s but local storage lacks it", what, p, pr.Oid[:12])
			return
		}
		if Oid(obj) != pr.Oid {
			c.Violation("bad-object-stored", "after %s, local object %s hashes to %s", what, pr.Oid[:12], Oid(obj)[:12])
			return
		}
		if !bytes.Equal(wt.data, obj) {
			c.Violation("working-file-wrong", "after %s (exit 0), working file %s has %d bytes (sha %s), expected the %d bytes of %s", what, p, len(wt.data), Oid(wt.data)[:12], len(obj), pr.Oid[:12])
			return
		}
	}
}

func c04Op(c *Ctx, w *World, h *Hist, u2 string, faults bool) {
	t := c.T
	g2 := filepath.Join(u2, ".git")
	// maybe lose some local objects first (still an intact store: only deletions)
	if t.Bool(1, 3, "lose-objects") {
		objs := LocalObjects(g2)
		var oids []string
		for o := range objs {
			oids = append(oids, o)
		}
		sort.Strings(oids)
		for _, o := range oids {
			if t.Bool(1, 2, "lose-this") {
				os.Remove(ObjectPath(g2, o))
			}
		}
	}
	var f pathFilter
	var fargs []string
	switch t.Choose(5, "filter") {
	case 1:
		f.inc = []string{"dir"}
		fargs = []string{"-I", "dir"}
	case 2:
		f.exc = []string{"*.dat"}
		fargs = []string{"-X", "*.dat"}
	case 3:
		f.inc = []string{"*.bin"}
		f.exc = []string{"dir"}
		fargs = []string{"-I", "*.bin", "-X", "dir"}
	}
	// a filter may also come from the configuration; a flag on the command
	// line replaces only the setting it names
	kind := t.Choose(8, "c04-op")
	if (kind == 0 || kind == 1 || kind == 3 || kind == 4) && t.Bool(1, 3, "configured-filter-besides-flags") {
		// one setting configured, the other given as a flag, overlapping:
		// the flag replaces only the setting it names
		f = pathFilter{}
		switch t.Choose(4, "configured-and-flag") {
		case 0:
			w.MustGit(u2, "config", "lfs.fetchexclude", "sub")
			f.inc, f.exc = []string{"dir"}, []string{"sub"}
			fargs = []string{"-I", "dir"}
		case 1:
			w.MustGit(u2, "config", "lfs.fetchexclude", "dir")
			f.inc, f.exc = []string{"*.bin"}, []string{"dir"}
			fargs = []string{"-I", "*.bin"}
		case 2:
			w.MustGit(u2, "config", "lfs.fetchinclude", "*.bin")
			f.inc, f.exc = []string{"*.bin"}, []string{"dir"}
			fargs = []string{"-X", "dir"}
		default:
			w.MustGit(u2, "config", "lfs.fetchexclude", "*.dat")
			f.inc, f.exc = []string{"e.dat"}, []string{"*.dat"}
			fargs = []string{"-I", "e.dat"}
		}
		c.Probe("configured-filter-besides-flags")
		defer func() {
			w.Git(u2, "config", "--unset", "lfs.fetchexclude")
			w.Git(u2, "config", "--unset", "lfs.fetchinclude")
		}()
	}
	switch kind {
	case 0, 1: // git lfs fetch [ref]
		ref := "HEAD"
		args := []string{"lfs", "fetch", "origin"}
		if t.Choose(2, "fetch-ref") == 1 {
			b := h.Branches[t.Choose(len(h.Branches), "fetch-branch")]
			ref = "refs/remotes/origin/" + b
			args = append(args, ref)
		}
		args = append(args, fargs...)
		// --recent adds the tips of branches committed to within
		// lfs.fetchrecentrefsdays
		recent := t.Bool(1, 4, "fetch-recent")
		if recent {
			args = append(args, "--recent")
		}
		out, code := w.Git(u2, args...)
		if msg, ok := storeIntact(g2); !ok {
			c.Violation("bad-object-stored", "after %v (exit %d): %s", args, code, msg)
			return
		}
		if code != 0 {
			c.Probe("fetch-failed")
			if !faults {
				c.Violation("fetch-failed", "fault-free %v exited %d: %s", args, code, firstLine(out))
			}
			return
		}
		c.Probe("fetch-ok")
		local := LocalObjects(g2)
		ptrs := w.TreePointers(u2, ref)
		var paths []string
		for p := range ptrs {
			paths = append(paths, p)
		}
		sort.Strings(paths)
		for _, p := range paths {
			if !f.allows(p) || ptrs[p].Size == 0 {
				continue
			}
			// an object shared with an excluded path is still selected through this path
			if _, ok := local[ptrs[p].Oid]; !ok {
				c.Violation("object-missing-after-success", "%v exited 0 but %s (%s at %s) is not in local storage", args, ptrs[p].Oid[:12], p, ref)
				return
			}
		}
		if recent {
			c.Probe("fetch-recent-ok")
			// recent = tip committed within lfs.fetchrecentrefsdays (7); only
			// demanded well inside the window (6 days)
			var rrefs []string
			dates, _ := w.GitQ(u2, "for-each-ref", "--format=%(refname) %(committerdate:unix)", "refs/heads", "refs/remotes/origin")
			for _, ln := range strings.Split(dates, "\n") {
				fs := strings.Fields(ln)
				if len(fs) != 2 || fs[0] == "refs/remotes/origin/HEAD" {
					continue
				}
				ts, err := strconv.ParseInt(fs[1], 10, 64)
				if err == nil && time.Now().Unix()-ts < 6*86400 {
					rrefs = append(rrefs, fs[0])
				}
			}
			sort.Strings(rrefs)
			if len(rrefs) > 0 {
				c.Probe("fetch-recent-has-recent-refs")
			}
			for _, r := range rrefs {
				rp := w.TreePointers(u2, r)
				var rpaths []string
				for p := range rp {
					rpaths = append(rpaths, p)
				}
				sort.Strings(rpaths)
				for _, p := range rpaths {
					if !f.allows(p) || rp[p].Size == 0 {
						continue
					}
					if _, ok := local[rp[p].Oid]; !ok {
						c.Violation("object-missing-after-success", "%v exited 0 but %s (%s at the recent branch %s) is not in local storage", args, rp[p].Oid[:12], p, r)
						return
					}
				}
			}
		}
	case 2: // fetch --all
		args := []string{"lfs", "fetch", "--all", "origin"}
		out, code := w.Git(u2, args...)
		if msg, ok := storeIntact(g2); !ok {
			c.Violation("bad-object-stored", "after %v (exit %d): %s", args, code, msg)
			return
		}
		if code != 0 {
			c.Probe("fetch-failed")
			if !faults {
				c.Violation("fetch-failed", "fault-free %v exited %d: %s", args, code, firstLine(out))
			}
			return
		}
		c.Probe("fetch-all-ok")
		local := LocalObjects(g2)
		for oid, p := range w.ReachablePointers(u2, "--all") {
			if p.Size == 0 {
				continue
			}
			if _, ok := local[oid]; !ok {
				c.Violation("object-missing-after-success", "%v exited 0 but %s (%v) is not in local storage", args, oid[:12], clipPaths(p.Paths))
				return
			}
		}
	case 3, 4, 5: // pull / checkout with local edits
		edits := editWorkTree(c, w, h, u2)
		idx := w.IndexPointers(u2)
		before := map[string]wtFile{}
		files, _ := w.GitQ(u2, "ls-files", "-z")
		var tracked []string
		for _, p := range strings.Split(files, "\x00") {
			if p != "" {
				tracked = append(tracked, p)
				before[p] = readWT(u2, p)
			}
		}
		var args []string
		if kind == 5 {
			args = []string{"lfs", "checkout"}
			f = pathFilter{}
		} else {
			args = append([]string{"lfs", "pull", "origin"}, fargs...)
		}
		// what git lfs checkout can use is what is local before it runs (the
		// clean filter run by its index update may re-create objects from
		// already materialised files afterwards)
		localBefore := LocalObjects(g2)
		if d := os.Getenv("VERIF_C04_SNAPSHOT"); d != "" {
			os.RemoveAll(d)
			exec.Command("cp", "-a", u2, d).Run() // debugging aid: state before the judged command
		}
		out, code := w.Git(u2, args...)
		if msg, ok := storeIntact(g2); !ok {
			c.Violation("bad-object-stored", "after %v (exit %d): %s", args, code, msg)
			return
		}
		// never clobber: judged whether or not the command succeeded
		for _, p := range tracked {
			b := before[p]
			ptr, isPtrPath := idx[p]
			recorded := isPtrPath && b.ok && string(b.data) == PointerText(ptr.Oid, ptr.Size)
			if recorded || !b.ok {
				// a deleted file is not "a working-tree file whose content
				// is not the pointer": recreating it is not judged
				continue
			}
			a := readWT(u2, p)
			if a.ok != b.ok || !bytes.Equal(a.data, b.data) || a.mode != b.mode {
				c.Violation("clobbered-working-file", "%v changed %s whose content was not the pointer recorded for it (edit: %s): before exists=%v %d bytes mode %v, after exists=%v %d bytes mode %v", args, p, edits[p], b.ok, len(b.data), b.mode, a.ok, len(a.data), a.mode)
				return
			}
			if edits[p] != "" {
				c.Probe("edited-file-preserved")
			}
		}
		if code != 0 {
			c.Probe("pull-checkout-failed")
			if !faults && kind != 5 {
				c.Violation("pull-failed", "fault-free %v exited %d: %s", args, code, firstLine(out))
			}
			return
		}
		c.Probe("pull-checkout-ok")
		// files that were the recorded pointer and are selected must now be content
		local := LocalObjects(g2)
		// and after a pull every selected file's object is in local storage,
		// whatever state its working-tree file is in (edited, replaced, deleted)
		if kind != 5 {
			var ips []string
			for p := range idx {
				ips = append(ips, p)
			}
			sort.Strings(ips)
			for _, p := range ips {
				ptr := idx[p]
				if ptr.Size == 0 || !f.allows(p) {
					continue
				}
				if attr, _ := w.GitQ(u2, "check-attr", "filter", "--", p); !strings.HasSuffix(strings.TrimSpace(attr), "filter: lfs") {
					continue
				}
				if _, has := local[ptr.Oid]; !has {
					c.Violation("object-missing-after-success", "%v exited 0 but the object %s of %s (working-tree file: %s) is not in local storage", args, ptr.Oid[:12], p, map[bool]string{true: "as checked out or pointer", false: edits[p]}[edits[p] == ""])
					return
				}
			}
		}
		for _, p := range tracked {
			ptr, isPtrPath := idx[p]
			b := before[p]
			if !isPtrPath || !b.ok || string(b.data) != PointerText(ptr.Oid, ptr.Size) || ptr.Size == 0 {
				continue
			}
			attr, _ := w.GitQ(u2, "check-attr", "filter", "--", p)
			if !strings.HasSuffix(strings.TrimSpace(attr), "filter: lfs") {
				continue
			}
			a := readWT(u2, p)
			if kind == 5 {
				// git lfs checkout only uses what is in local storage
				obj, has := localBefore[ptr.Oid]
				if !has && c.refStore != nil {
					// what a reference repository holds is available too
					obj, has = c.refStore[ptr.Oid]
				}
				if has && !bytes.Equal(a.data, obj) {
					c.Violation("working-file-wrong", "git lfs checkout left %s with %d bytes although %s is in local storage (or in the reference repository's)", p, len(a.data), ptr.Oid[:12])
					return
				}
				// (not local before: the index update's clean filter may have
				// re-created it from an already materialised duplicate while
				// the command was still running, so the content is fine too)
				if !has && !bytes.Equal(a.data, b.data) && Oid(a.data) != ptr.Oid {
					c.Violation("working-file-wrong", "git lfs checkout changed %s to something that is neither its pointer nor its content although its object was not in local storage", p)
					return
				}
				continue
			}
			if !f.allows(p) {
				// it was the recorded pointer before the command and is not
				// selected: it remains that pointer
				if !bytes.Equal(a.data, b.data) {
					c.Violation("skipped-file-not-a-pointer", "%v: %s is excluded (effective include %v, exclude %v) and was its pointer before the command, but now holds %d other bytes", args, p, f.inc, f.exc, len(a.data))
					return
				}
				c.Probe("excluded-pointer-untouched")
				continue
			}
			obj, has := local[ptr.Oid]
			if !has {
				c.Violation("object-missing-after-success", "%v exited 0 but %s (%s) is not in local storage", args, ptr.Oid[:12], p)
				return
			}
			if !bytes.Equal(a.data, obj) {
				c.Violation("working-file-wrong", "%v exited 0 but %s has %d bytes instead of the %d bytes of %s", args, p, len(a.data), len(obj), ptr.Oid[:12])
				return
			}
			c.Probe("pointer-file-materialised")
		}
	case 7: // files rewritten by git while lfs.fetchinclude/exclude is configured and every object is local
		if _, code := w.Git(u2, "lfs", "fetch", "--all", "origin"); code != 0 {
			c.Probe("fetch-failed")
			return
		}
		var cf pathFilter
		switch t.Choose(3, "configured-filter") {
		case 0:
			cf.exc = []string{"dir"}
			w.MustGit(u2, "config", "lfs.fetchexclude", "dir")
		case 1:
			cf.exc = []string{"*.dat"}
			w.MustGit(u2, "config", "lfs.fetchexclude", "*.dat")
		default:
			cf.inc = []string{"*.bin"}
			cf.exc = []string{"dir"}
			w.MustGit(u2, "config", "lfs.fetchinclude", "*.bin")
			w.MustGit(u2, "config", "lfs.fetchexclude", "dir")
		}
		defer func() {
			w.Git(u2, "config", "--unset", "lfs.fetchexclude")
			w.Git(u2, "config", "--unset", "lfs.fetchinclude")
		}()
		w.Git(u2, "reset", "-q", "--hard")
		tree := w.TreePointers(u2, "HEAD")
		var ps []string
		for p := range tree {
			ps = append(ps, p)
		}
		sort.Strings(ps)
		for _, p := range ps {
			os.Remove(filepath.Join(u2, p))
		}
		out, code := w.Git(u2, "checkout", "-q", "-f", "HEAD", "--", ".")
		if code != 0 {
			c.Probe("checkout-failed")
			if !faults {
				c.Violation("checkout-failed", "fault-free git checkout -- . exited %d: %s", code, firstLine(out))
			}
			return
		}
		c.Probe("checkout-with-configured-filter")
		local := LocalObjects(g2)
		for _, p := range ps {
			pr := tree[p]
			attr, _ := w.GitQ(u2, "check-attr", "filter", "--", p)
			if !strings.HasSuffix(strings.TrimSpace(attr), "filter: lfs") || pr.Size == 0 {
				continue
			}
			wt := readWT(u2, p)
			if !wt.ok {
				continue
			}
			if !cf.allows(p) {
				if string(wt.data) != PointerText(pr.Oid, pr.Size) {
					c.Violation("skipped-file-not-a-pointer", "git checkout wrote %s, which lfs.fetchinclude=%v lfs.fetchexclude=%v excludes, as %d bytes that are not its pointer (object local: %v)", p, cf.inc, cf.exc, len(wt.data), local[pr.Oid] != nil)
					return
				}
				c.Probe("excluded-file-is-pointer")
				continue
			}
			if Oid(wt.data) != pr.Oid {
				c.Violation("working-file-wrong", "git checkout wrote %s (selected by the configured filter, object local: %v) as %d bytes that are not the content of %s", p, local[pr.Oid] != nil, len(wt.data), pr.Oid[:12])
				return
			}
		}
	default: // git checkout of another ref (filters run)
		w.Git(u2, "reset", "-q", "--hard")
		oldTree := w.TreePointers(u2, "HEAD")
		b := h.Branches[t.Choose(len(h.Branches), "checkout-branch")]
		out, code := w.Git(u2, "checkout", "-q", "-B", b, "origin/"+b)
		if msg, ok := storeIntact(g2); !ok {
			c.Violation("bad-object-stored", "after checkout (exit %d): %s", code, msg)
			return
		}
		if code != 0 {
			c.Probe("checkout-failed")
			if !faults {
				c.Violation("checkout-failed", "fault-free git checkout %s exited %d: %s", b, code, firstLine(out))
			}
			w.Git(u2, "reset", "-q", "--hard")
			return
		}
		c.Probe("checkout-ok")
		// git only rewrites files that differ between the two trees: a file
		// it did not touch may still be the pointer left by an earlier
		// skipped smudge. Files it wrote must be the content.
		newTree := w.TreePointers(u2, "HEAD")
		var ps []string
		for p := range newTree {
			ps = append(ps, p)
		}
		sort.Strings(ps)
		for _, p := range ps {
			pr := newTree[p]
			attr, _ := w.GitQ(u2, "check-attr", "filter", "--", p)
			if !strings.HasSuffix(strings.TrimSpace(attr), "filter: lfs") || pr.Size == 0 {
				continue
			}
			wt := readWT(u2, p)
			if !wt.ok {
				continue
			}
			isPtr := string(wt.data) == PointerText(pr.Oid, pr.Size)
			// the file may hold the right content although the object has since
			// been deleted from local storage (the harness loses objects on
			// purpose, and git does not rewrite an unchanged file)
			isContent := Oid(wt.data) == pr.Oid
			old, hadOld := oldTree[p]
			untouched := hadOld && old.Blob == pr.Blob
			switch {
			case isContent:
				c.Probe("materialised-file-checked")
			case isPtr && untouched:
				c.Probe("untouched-pointer-file")
			case isPtr:
				c.Violation("object-missing-after-success", "git checkout %s exited 0 and wrote %s, but it is still the pointer for %s", b, p, pr.Oid[:12])
				return
			default:
				whose := "unknown content"
				if _, ok := h.Contents[Oid(wt.data)]; ok {
					whose = "the content of object " + Oid(wt.data)[:12]
				}
				oldDesc := "path absent in the previous HEAD"
				if hadOld {
					oldDesc = "previous HEAD pointed to " + old.Oid[:12]
				}
				st, _ := w.GitQ(u2, "status", "--porcelain", "--", p)
				c.Violation("working-file-wrong", "after git checkout %s (exit 0), %s has %d bytes (%s) that are neither the pointer nor the content of %s; %s; git status: %q; output: %s", b, p, len(wt.data), whose, pr.Oid[:12], oldDesc, strings.TrimSpace(st), clipStr(out, 200))
				return
			}
		}
	}
}

// editWorkTree applies local modifications before pull/checkout; returns
// path -> kind of edit.
func editWorkTree(c *Ctx, w *World, h *Hist, dir string) map[string]string {
	t := c.T
	edits := map[string]string{}
	files, _ := w.GitQ(dir, "ls-files", "-z")
	var tracked []string
	for _, p := range strings.Split(files, "\x00") {
		if p != "" && p != ".gitattributes" {
			tracked = append(tracked, p)
		}
	}
	sort.Strings(tracked)
	idx := w.IndexPointers(dir)
	for _, p := range tracked {
		if !t.Bool(1, 3, "edit-file") {
			continue
		}
		full := filepath.Join(dir, p)
		switch t.Choose(7, "edit-kind") {
		case 6:
			// the user emptied the file
			os.Chmod(full, 0644)
			os.WriteFile(full, nil, 0644)
			edits[p] = "truncated to zero bytes"
		case 0:
			os.Chmod(full, 0644)
			os.WriteFile(full, []byte(fmt.Sprintf("locally edited %s\n", p)), 0644)
			edits[p] = "edited"
		case 1:
			os.Remove(full)
			edits[p] = "deleted"
		case 2:
			other := Oid([]byte("some other object " + p))
			os.Chmod(full, 0644)
			os.WriteFile(full, []byte(PointerText(other, 1234)), 0644)
			edits[p] = "replaced by a different valid pointer"
		case 3:
			os.Chmod(full, 0644)
			os.WriteFile(full, []byte("version https://git-lfs.github.com/spec/v1\noid sha256:nothex\nsize 3\n"), 0644)
			edits[p] = "replaced by look-alike text"
		case 4:
			// back to the recorded pointer (so that pull has something to do), read-only
			if ptr, ok := idx[p]; ok {
				os.Chmod(full, 0644)
				os.WriteFile(full, []byte(PointerText(ptr.Oid, ptr.Size)), 0444)
				os.Chmod(full, 0444)
			}
		default:
			if ptr, ok := idx[p]; ok {
				os.Chmod(full, 0644)
				os.WriteFile(full, []byte(PointerText(ptr.Oid, ptr.Size)), 0644)
			}
		}
	}
	return edits
}
