package engb

import (
	"bytes"
	"fmt"
	"os"
	"os/exec"
	"path/filepath"
	"strings"

	"verif/sim"
)

func init() {
	Register("C01.git", func(c *Ctx) { runC01Git(c) })
}

func genPayload(t *sim.Tape, tag int) ([]byte, string) {
	sizes := []int{0, 1, 100, 1023, 1024, 1025, 4096, 65515, 65516, 65517, 131032, 300000}
	n := sizes[t.Choose(len(sizes), "size")]
	kind := t.Choose(5, "kind")
	if kind == 4 {
		ws := []string{"\n", " ", "\r\n", "\n\n", "\t \n"}[t.Choose(5, "whitespace-form")]
		rep := []int{1, 1, 3, 400}[t.Choose(4, "whitespace-rep")]
		return []byte(strings.Repeat(ws, rep)), "whitespace-only"
	}
	b := make([]byte, n)
	r := sim.NewSplitMix(uint64(n)*31 + uint64(tag)*977 + t.Seed)
	for i := 0; i < n; i += 8 {
		v := r.Next()
		for j := 0; j < 8 && i+j < n; j++ {
			c := byte(v >> (8 * uint(j)))
			switch kind {
			case 1:
				c = "abcdefghijklmnopqrstuvwxyz \n"[int(c)%28]
			case 2:
				c = "line of text\r\n"[(i+j)%14]
			}
			b[i+j] = c
		}
	}
	class := []string{"binary", "text", "crlf", "pointer-lookalike"}[kind]
	if kind == 3 {
		p := []byte(PointerText(Oid([]byte("x")), 5))
		if n > len(p) {
			copy(b, p)
		}
	}
	if n > 0 {
		b[n-1] = byte('0' + tag%10) // make payloads of one scenario distinct
	}
	return b, fmt.Sprintf("%s/%d", class, n)
}

// runC01Git: the round trip through Git itself: git add / hash-object with
// something else at the path / checkout / stash / merge through the LFS merge
// driver / a pointer extension.
func runC01Git(c *Ctx) {
	t := c.T
	w := c.NewWorld(sim.Faults{})
	c.Res.Nontrivial = true
	u := filepath.Join(w.Root, "u1")
	g := filepath.Join(u, ".git")
	w.MustGit(w.Root, "init", "-q", u)
	w.MustGit(u, "lfs", "install", "--local", "--force")
	oneshot := t.Choose(3, "one-shot-filters") == 0
	if oneshot {
		gc := filepath.Join(w.Home, ".gitconfig")
		b, _ := os.ReadFile(gc)
		os.WriteFile(gc, []byte(strings.Replace(string(b), "\tprocess = git-lfs filter-process\n", "", 1)), 0644)
	}
	if t.Choose(3, "GIT_LFS_PROGRESS") == 1 {
		w.ExtraEnv = append(w.ExtraEnv, "GIT_LFS_PROGRESS="+filepath.Join(w.Root, "progress.log"))
	}
	// pointer extensions: none, size-preserving, shrinking, growing, two at
	// once of which one leaves some inputs alone (and is then not recorded in
	// the pointer), one that can be made to fail
	extKind := []string{"", "", "", "rot", "gz", "b64", "cgz+b64", "fail"}[t.Choose(8, "pointer-extension")]
	ext := extKind != ""
	extDir := filepath.Join(w.Root, "ext")
	os.MkdirAll(extDir, 0755)
	script := func(name, body string) string {
		p := filepath.Join(extDir, name)
		os.WriteFile(p, []byte("#!/bin/sh\n"+body+"\n"), 0755)
		return p
	}
	failFlag := filepath.Join(extDir, "fail-now")
	type extSpec struct{ name, clean, smudge string }
	var exts []extSpec // in priority order
	switch extKind {
	case "rot":
		exts = []extSpec{{"rot", "tr A-Za-z N-ZA-Mn-za-m", "tr A-Za-z N-ZA-Mn-za-m"}}
	case "gz":
		exts = []extSpec{{"gz", "gzip -nc", "gzip -dc"}}
	case "b64":
		exts = []extSpec{{"b64", "base64", "base64 -d"}}
	case "cgz+b64":
		// compresses unless the input already is gzip data
		cgz := script("cgz-clean", `t=$(mktemp); cat >"$t"; if gzip -t "$t" 2>/dev/null; then cat "$t"; else gzip -nc "$t"; fi; rm -f "$t"`)
		exts = []extSpec{{"cgz", cgz, "gzip -dc"}, {"b64", "base64", "base64 -d"}}
	case "fail":
		// dies half way (after reading its input) while the flag file exists
		fc := script("fail-clean", `if [ -e "`+failFlag+`" ]; then cat >/dev/null; printf 'partial output'; exit 3; fi; exec tr A-Za-z N-ZA-Mn-za-m`)
		exts = []extSpec{{"flaky", fc, "tr A-Za-z N-ZA-Mn-za-m"}}
	}
	// configured priorities only order the extensions: any non-negative
	// numbers do, also sparse and two-digit ones; names may contain hyphens
	prioBase := []int{0, 0, 3, 10, 41}[t.Choose(5, "extension-priority-base")]
	hyphen := t.Bool(1, 3, "hyphenated-extension-name")
	for i, e := range exts {
		name := e.name
		if hyphen {
			name = e.name + "-ext"
		}
		w.MustGit(u, "config", "lfs.extension."+name+".clean", e.clean)
		w.MustGit(u, "config", "lfs.extension."+name+".smudge", e.smudge)
		w.MustGit(u, "config", "lfs.extension."+name+".priority", fmt.Sprint(prioBase+i*7))
	}
	if ext {
		c.Probe("pointer-extension-" + extKind)
	}
	os.WriteFile(filepath.Join(u, ".gitattributes"), []byte("*.bin filter=lfs diff=lfs merge=lfs -text\n*.ltxt filter=lfs diff=lfs merge=lfs-text -text\n"), 0644)
	driver := "git lfs merge-driver --ancestor %O --current %A --other %B --marker-size %L --output %A"
	switch t.Choose(4, "merge-program") {
	case 1: // the documented spelling of the default
		driver += " --program 'git merge-file --stdout --marker-size=%%L %%A %%O %%B >%%D'"
	case 2: // a program that moves its result into place
		driver += " --program 'git merge-file --stdout --marker-size=%%L %%A %%O %%B >%%D.new; s=$?; mv %%D.new %%D; exit $s'"
	case 3: // a program that edits in place through a temporary copy
		driver += " --program 'cp %%A %%D.cur && git merge-file --marker-size=%%L %%D.cur %%O %%B; s=$?; cat %%D.cur >%%D; rm -f %%D.cur; exit $s'"
	}
	w.MustGit(u, "config", "merge.lfs-text.driver", driver)
	w.MustGit(u, "add", ".gitattributes")
	w.MustGit(u, "commit", "-q", "-m", "attrs")

	// what the extensions' clean commands make of the content (the same
	// programs git-lfs runs, run here by the harness in priority order)
	rot := func(b []byte) []byte {
		for _, e := range exts {
			cmd := exec.Command("sh", "-c", e.clean)
			cmd.Stdin = bytes.NewReader(b)
			cmd.Env = append(os.Environ(), "LC_ALL=C")
			o, err := cmd.Output()
			if err != nil {
				panic(sim.HarnessError{Msg: "extension program failed in the harness: " + err.Error()})
			}
			b = o
		}
		return b
	}
	// checkBlob: the blob must be the pointer naming what is stored, and
	// smudging it must give the original bytes back.
	checkBlob := func(what, blob string, orig []byte) {
		ptrText, _ := w.GitQ(u, "cat-file", "blob", blob)
		stored := orig
		if ext {
			stored = rot(orig)
		}
		// (an extension such as gzip turns empty input into something)
		if len(stored) == 0 || (len(orig) == 0 && ptrText == "") {
			if ptrText != "" {
				c.Violation("empty-not-empty", "%s: empty content was stored as %q", what, clipStr(ptrText, 80))
			}
			return
		}
		oid, size, ok := ParsePointer([]byte(ptrText))
		if !ok {
			c.Violation("blob-not-a-pointer", "%s: content of %d bytes was committed as a blob that is not a pointer: %q", what, len(orig), clipStr(ptrText, 160))
			return
		}
		if oid != Oid(stored) || size != int64(len(stored)) {
			c.Violation("pointer-names-wrong-content", "%s: pointer says %s/%d, the content handed to clean hashes to %s/%d (after extension: %v)", what, oid[:12], size, Oid(stored)[:12], len(stored), ext)
			return
		}
		obj, err := os.ReadFile(ObjectPath(g, oid))
		if err != nil || !bytes.Equal(obj, stored) {
			c.Violation("stored-object-wrong", "%s: local storage for %s has %d bytes (err %v), expected %d", what, oid[:12], len(obj), err, len(stored))
			return
		}
		if !ext && ptrText != PointerText(oid, size) {
			c.Violation("pointer-not-canonical", "%s: pointer is not the canonical encoding: %q", what, ptrText)
			return
		}
		c.Probe("pointer-checked")
	}
	nfiles := 1 + t.Choose(4, "n-files")
	for i := 0; i < nfiles && c.Res.Class == ""; i++ {
		data, class := genPayload(t, i)
		if extKind == "cgz+b64" && len(data) > 0 && t.Bool(1, 2, "payload-already-gzip") {
			cmd := exec.Command("gzip", "-nc")
			cmd.Stdin = bytes.NewReader(data)
			if o, err := cmd.Output(); err == nil {
				data, class = o, class+"+gzipped"
			}
		}
		failing := extKind == "fail" && t.Bool(1, 2, "extension-fails-now") && len(data) > 0
		os.Remove(failFlag)
		if failing {
			os.WriteFile(failFlag, []byte("1"), 0644)
		}
		name := fmt.Sprintf("f%d.bin", i)
		full := filepath.Join(u, name)
		what := fmt.Sprintf("%s (%s)", name, class)
		switch t.Choose(3, "how") {
		case 0: // plain git add
			os.WriteFile(full, data, 0644)
			out, code := w.Git(u, "add", name)
			os.Remove(failFlag)
			if code != 0 {
				if failing {
					os.Remove(failFlag)
					os.Remove(full)
					c.Probe("clean-refused-when-extension-failed")
					continue
				}
				c.Violation("add-failed", "git add %s failed: %s", what, firstLine(out))
				return
			}
		default: // clean from stdin while something else sits at the path
			state := []string{"absent", "shorter", "longer", "pointer"}[t.Choose(4, "worktree-state")]
			switch state {
			case "shorter":
				os.WriteFile(full, data[:len(data)/3], 0644)
			case "longer":
				os.WriteFile(full, append(append([]byte(nil), data...), bytes.Repeat([]byte("tail"), 500)...), 0644)
			case "pointer":
				os.WriteFile(full, []byte(PointerText(Oid([]byte("previous")), 4321)), 0644)
			default:
				os.Remove(full)
			}
			what += " via hash-object --path with " + state + " file at the path"
			id, code := w.Run(u, &RunOpts{Stdin: data}, "git", "hash-object", "-w", "--path="+name, "--stdin")
			os.Remove(failFlag)
			if code != 0 {
				if failing {
					os.Remove(failFlag)
					os.Remove(full)
					c.Probe("clean-refused-when-extension-failed")
					continue
				}
				c.Violation("add-failed", "git hash-object for %s failed: %s", what, firstLine(id))
				return
			}
			w.MustGit(u, "update-index", "--add", "--cacheinfo", "100644,"+strings.TrimSpace(id)+","+name)
			os.Remove(full)
		}
		blob, _ := w.GitQ(u, "rev-parse", ":"+name)
		blob = strings.TrimSpace(blob)
		if failing {
			// the extension died, yet Git was handed a blob: it cannot name the content
			os.Remove(failFlag)
			ptrText, _ := w.GitQ(u, "cat-file", "blob", blob)
			c.Violation("clean-accepted-failed-extension", "%s: the pointer extension exited with status 3 after writing partial output, but clean succeeded and Git stored %q", what, clipStr(ptrText, 200))
			return
		}
		checkBlob(what, blob, data)
		if c.Res.Class != "" {
			return
		}
		// smudge: check the file out again
		os.Remove(full)
		if out, code := w.Git(u, "checkout", "--", name); code != 0 {
			c.Violation("checkout-failed", "git checkout of %s failed: %s", what, firstLine(out))
			return
		}
		back, _ := os.ReadFile(full)
		if !bytes.Equal(back, data) {
			c.Violation("round-trip-differs", "%s: checkout returned %d bytes (sha %s), original %d bytes (sha %s)", what, len(back), Oid(back)[:12], len(data), Oid(data)[:12])
			return
		}
		c.Probe("round-trip-ok")
	}
	w.Git(u, "commit", "-q", "-m", "files")
	// stash round trip
	if t.Bool(1, 2, "stash") && c.Res.Class == "" {
		data, class := genPayload(t, 7)
		full := filepath.Join(u, "f0.bin")
		os.WriteFile(full, data, 0644)
		if _, code := w.Git(u, "stash", "push", "-q"); code == 0 {
			w.Git(u, "stash", "pop", "-q")
			back, _ := os.ReadFile(full)
			if !bytes.Equal(back, data) {
				c.Violation("round-trip-differs", "stash/pop of f0.bin (%s): got %d bytes, expected %d", class, len(back), len(data))
				return
			}
			c.Probe("stash-round-trip-ok")
		}
		w.Git(u, "checkout", "--", "f0.bin")
	}
	// merge of a text file stored in LFS through the merge driver
	if t.Bool(2, 3, "merge-driver") && c.Res.Class == "" && !ext {
		nlines := []int{3, 40, 400, 2000}[t.Choose(4, "merge-lines")]
		mk := func(edit func(i int, l string) string) []byte {
			var b bytes.Buffer
			for i := 0; i < nlines; i++ {
				l := fmt.Sprintf("line %d of the shared document", i)
				if edit != nil {
					l = edit(i, l)
				}
				if l != "\x00" {
					b.WriteString(l + "\n")
				}
			}
			return b.Bytes()
		}
		base := mk(nil)
		// ours: change the first line (maybe shrinking the file a lot); theirs: change the last
		oursKind := t.Choose(3, "ours-edit")
		ours := mk(func(i int, l string) string {
			if i == 0 {
				return "OURS " + l
			}
			if oursKind == 1 && i > 0 && i < nlines-1 && nlines > 3 {
				return "\x00" // delete the middle: the merged file is much shorter
			}
			if oursKind == 2 && i == 1 {
				return l + strings.Repeat(" padding", 200)
			}
			return l
		})
		theirsKind := t.Choose(3, "theirs-edit")
		theirs := mk(func(i int, l string) string {
			if i == nlines-1 {
				return l + " THEIRS"
			}
			if theirsKind == 1 && oursKind != 1 && i > 2 && i < nlines-1 {
				return "\x00" // the other side deletes most of the file: merged is much shorter than ours
			}
			return l
		})
		doc := filepath.Join(u, "doc.ltxt")
		os.WriteFile(doc, base, 0644)
		w.MustGit(u, "add", "doc.ltxt")
		w.MustGit(u, "commit", "-q", "-m", "doc base")
		w.MustGit(u, "checkout", "-q", "-b", "theirs")
		os.WriteFile(doc, theirs, 0644)
		w.MustGit(u, "commit", "-q", "-a", "-m", "theirs")
		w.MustGit(u, "checkout", "-q", "-")
		os.WriteFile(doc, ours, 0644)
		w.MustGit(u, "commit", "-q", "-a", "-m", "ours")
		// expected merge result by git merge-file on the raw contents
		tmp := filepath.Join(w.Root, "mf")
		os.MkdirAll(tmp, 0755)
		os.WriteFile(filepath.Join(tmp, "a"), ours, 0644)
		os.WriteFile(filepath.Join(tmp, "o"), base, 0644)
		os.WriteFile(filepath.Join(tmp, "b"), theirs, 0644)
		want, mcode := w.GitQ(tmp, "merge-file", "--stdout", "a", "o", "b")
		out, code := w.Git(u, "merge", "-q", "--no-edit", "theirs")
		if mcode == 0 {
			if code != 0 {
				c.Violation("merge-failed", "git merge through the LFS merge driver failed although the texts merge cleanly: %s", clipStr(out, 300))
				return
			}
			blob, _ := w.GitQ(u, "rev-parse", "HEAD:doc.ltxt")
			checkBlob(fmt.Sprintf("doc.ltxt merged through git lfs merge-driver (base %d, ours %d, theirs %d, merged %d bytes)", len(base), len(ours), len(theirs), len(want)), strings.TrimSpace(blob), []byte(want))
			if c.Res.Class != "" {
				return
			}
			got, _ := os.ReadFile(doc)
			if !bytes.Equal(got, []byte(want)) {
				c.Violation("round-trip-differs", "merged doc.ltxt in the working tree has %d bytes, git merge-file of the contents gives %d", len(got), len(want))
				return
			}
			c.Probe("merge-driver-ok")
		}
	}
	for _, s := range w.Steps {
		c.T.Note(fmt.Sprintf("%v %d", s.Args, s.Exit))
	}
}
