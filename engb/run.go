package engb

import (
	"fmt"
	"os"
	"path/filepath"
	"sort"
	"strings"

	"verif/sim"
)

// Result is the outcome of one engine-B scenario.
type Result struct {
	Idx        int            `json:"idx"`
	Seed       uint64         `json:"seed"`
	Class      string         `json:"class,omitempty"`
	Detail     string         `json:"detail,omitempty"`
	Needs      []string       `json:"needs,omitempty"`
	TraceHash  uint64         `json:"trace_hash"`
	Fired      map[string]int `json:"fired,omitempty"`
	Probes     map[string]int `json:"probes,omitempty"`
	Procs      int            `json:"processes"`
	Nontrivial bool           `json:"nontrivial"`
	Tape       []uint32       `json:"tape,omitempty"`
	Sample     interface{}    `json:"sample,omitempty"`
	Harness    string         `json:"harness,omitempty"`
	SimDays    int            `json:"sim_days,omitempty"`
	Points     int            `json:"crash_points,omitempty"`
	// Workload: the stage that produced this result (set by the orchestrator)
	Workload string `json:"workload,omitempty"`
	// APIProblems: lock API requests that do not conform (judged by C18)
	APIProblems []string `json:"api_problems,omitempty"`
}

// Ctx is handed to a scenario.
type Ctx struct {
	// refStore: LFS objects of a reference repository the clone borrows from (C04)
	refStore              map[string][]byte
	nNewBranch            int
	T                     *sim.Tape
	Root                  string
	BinDir                string
	Res                   *Result
	W                     *World
	Sample                bool
	Suppress              map[string]bool
	softClass, softDetail string
	offerHeaders          bool
	serverGC              bool
	sshRemote             bool
}

func (c *Ctx) Violation(class, format string, a ...interface{}) {
	if c.Res.Class == "" {
		c.Res.Class = class
		c.Res.Detail = fmt.Sprintf(format, a...)
	}
}

// Soft records a violation of a class that is a candidate known finding: the
// scenario goes on (tolerating exactly that effect) so that any other
// violation in the same history is still found and takes precedence.
func (c *Ctx) Soft(class, format string, a ...interface{}) {
	if c.softClass == "" {
		c.softClass = class
		c.softDetail = fmt.Sprintf(format, a...)
	}
}

func (c *Ctx) Probe(name string) {
	if c.Res.Probes == nil {
		c.Res.Probes = map[string]int{}
	}
	c.Res.Probes[name]++
}

// NewWorld creates the scenario's world (one per scenario).
func (c *Ctx) NewWorld(f sim.Faults) *World {
	w, err := NewWorld(filepath.Join(c.Root, "world"), c.BinDir, c.T, f)
	if err != nil {
		panic(sim.HarnessError{Msg: err.Error()})
	}
	w.Srv.Suppress = c.Suppress
	w.Srv.OfferExtraHeaders = c.offerHeaders
	c.W = w
	return w
}

type Scenario func(c *Ctx)

var scenarios = map[string]Scenario{}

func Register(name string, s Scenario) { scenarios[name] = s }

func Has(name string) bool { return scenarios[name] != nil }

// RunOne executes one scenario on a tape.
func RunOne(name string, tape *sim.Tape, root, binDir string, sample bool, suppress map[string]bool) (res Result) {
	sc := scenarios[name]
	res.Seed = tape.Seed
	if sc == nil {
		res.Harness = "unknown scenario " + name
		return
	}
	c := &Ctx{T: tape, Root: root, BinDir: binDir, Res: &res, Sample: sample, Suppress: suppress}
	func() {
		defer func() {
			if r := recover(); r != nil {
				if he, ok := r.(sim.HarnessError); ok {
					res.Harness = he.Msg
					return
				}
				res.Harness = fmt.Sprintf("panic in harness: %v", r)
			}
		}()
		sc(c)
		if res.Class == "" && c.softClass != "" {
			res.Class, res.Detail = c.softClass, c.softDetail
		}
	}()
	if c.W != nil {
		res.Procs = len(c.W.Steps)
		if c.W.Hang != "" && res.Class == "" && res.Harness == "" {
			res.Harness = "watchdog: " + c.W.Hang
		}
		res.Fired = map[string]int{}
		for k, v := range c.W.Srv.Fired {
			res.Fired[k] = v
		}
		for k := range res.Fired {
			res.Needs = append(res.Needs, k)
		}
		sort.Strings(res.Needs)
		if sample || res.Class != "" {
			res.Sample = c.sample()
		}
		c.W.Close()
	}
	res.TraceHash = tape.Hash()
	if res.Class != "" {
		res.Tape = append([]uint32(nil), tape.Rec...)
	}
	if keep := os.Getenv("VERIF_KEEP"); keep != "" {
		os.RemoveAll(keep)
		os.Rename(filepath.Join(root, "world"), keep)
	}
	os.RemoveAll(filepath.Join(root, "world"))
	return
}

func (c *Ctx) sample() interface{} {
	var steps []string
	for _, s := range c.W.Steps {
		line := fmt.Sprintf("[%s] %s -> %d", s.Dir, strings.Join(s.Args, " "), s.Exit)
		if s.Killed {
			line += " (killed)"
		}
		steps = append(steps, line)
	}
	if len(steps) > 120 {
		steps = append(append([]string{}, steps[:20]...), steps[len(steps)-100:]...)
	}
	var reqs []string
	for _, r := range c.W.Front.Requests() {
		reqs = append(reqs, fmt.Sprintf("%s %s -> %d %s", r.Method, r.Path, r.Status, r.Note))
		if len(reqs) > 60 {
			break
		}
	}
	return map[string]interface{}{"seed": c.T.Seed, "processes": steps, "requests": reqs, "outcome": c.Res.Class, "fired": c.Res.Fired}
}

// lastOutput returns the output of the most recent recorded step.
func (w *World) lastOutput() string {
	if len(w.Steps) == 0 {
		return ""
	}
	return w.Steps[len(w.Steps)-1].Out
}
