package engb

import (
	"bufio"
	"bytes"
	"encoding/json"
	"fmt"
	"os"
	"path/filepath"
	"sort"

	"verif/sim"
)

func init() {
	Register("C02.ssh", func(c *Ctx) { runC02SSH(c) })
}

// sshLogEntry is one request seen by the scripted ssh peer.
type sshLogEntry struct {
	Kind    string   `json:"kind"`
	Op      string   `json:"op"`
	Oid     string   `json:"oid"`
	Args    []string `json:"args"`
	Objects []string `json:"objects"`
	Behave  string   `json:"behave"`
	Attempt int      `json:"attempt"`
	Bytes   int      `json:"bytes"`
	Sha     string   `json:"sha"`
}

func readSSHLog(path string) []sshLogEntry {
	f, err := os.Open(path)
	if err != nil {
		return nil
	}
	defer f.Close()
	var out []sshLogEntry
	sc := bufio.NewScanner(f)
	sc.Buffer(make([]byte, 1<<20), 1<<20)
	for sc.Scan() {
		var e sshLogEntry
		if json.Unmarshal(sc.Bytes(), &e) == nil {
			out = append(out, e)
		}
	}
	return out
}

// SSHEnv returns the environment that makes git-lfs (and git) use the
// scripted ssh peer, and writes its script.
func sshSetup(w *World, script map[string]interface{}) (env []string, logFile string) {
	logFile = filepath.Join(w.Root, "ssh.log")
	script["log"] = logFile
	script["state"] = filepath.Join(w.Root, "ssh-state")
	b, _ := json.Marshal(script)
	scriptFile := filepath.Join(w.Root, "ssh.json")
	os.WriteFile(scriptFile, b, 0644)
	return []string{"VERIF_SSH_SCRIPT=" + scriptFile, "GIT_SSH_COMMAND=" + AgentBinary + " __lfs_ssh", "GIT_SSH_VARIANT=ssh"}, logFile
}

// runC02SSH: downloads through the pure SSH transfer adapter against a
// scripted peer speaking the git-lfs-transfer protocol.
func runC02SSH(c *Ctx) {
	t := c.T
	w := c.NewWorld(sim.Faults{})
	c.Res.Nontrivial = true
	remote := w.InitBare("remote.git")
	u1 := filepath.Join(w.Root, "u1")
	h := NewHist(w, u1)
	h.fixedTracking = true
	h.Init()
	w.MustGit(u1, "remote", "add", "origin", remote)
	w.ConfigureClone(u1, nil)
	n := 1 + t.Choose(4, "n-objects")
	for i := 0; i < n; i++ {
		h.WriteFile(fmt.Sprintf("f%d.bin", i), h.NewContent())
	}
	h.commit("files")
	if _, code := w.Git(u1, "push", "-q", "origin", "main"); code != 0 {
		panic(sim.HarnessError{Msg: "push failed: " + w.lastOutput()})
	}
	u2 := filepath.Join(w.Root, "u2")
	conc := []string{"1", "3"}[t.Choose(2, "concurrency")]
	retries := []string{"1", "2", "4"}[t.Choose(3, "maxretries")]
	args := []string{"clone", "-q", "-c", "lfs.url=ssh://git@simhost/repo.git", "-c", "lfs.concurrenttransfers=" + conc,
		"-c", "lfs.transfer.maxretries=" + retries, "-c", "lfs.transfer.maxretrydelay=0",
		"-c", "lfs.ssh.automultiplex=" + []string{"false", "true"}[t.Choose(2, "multiplex")], remote, u2}
	if _, code := w.GitEnv(w.Root, []string{"GIT_LFS_SKIP_SMUDGE=1"}, args...); code != 0 {
		panic(sim.HarnessError{Msg: "clone failed: " + w.lastOutput()})
	}
	g2 := filepath.Join(u2, ".git")
	src := filepath.Join(w.Root, "ssh-store")
	os.MkdirAll(src, 0755)
	ptrs := w.TreePointers(u2, "HEAD")
	var oids []string
	for _, p := range ptrs {
		if data, ok := h.Contents[p.Oid]; ok && p.Size > 0 {
			os.WriteFile(filepath.Join(src, p.Oid), data, 0644)
			oids = append(oids, p.Oid)
		}
	}
	sort.Strings(oids)
	kinds := []string{"ok", "ok", "ok", "bitflip", "truncated", "truncated-honest", "extra", "empty", "other", "status404", "status500", "no-size", "bad-size", "die-midstream", "die"}
	get := map[string][]string{}
	pre := map[string][]byte{}
	for _, o := range oids {
		na := 1 + t.Choose(3, "n-scripted-attempts")
		for k := 0; k < na; k++ {
			get[o] = append(get[o], kinds[t.Choose(len(kinds), "get-behaviour")])
		}
		if t.Bool(1, 5, "garbage-at-final-path") {
			p := ObjectPath(g2, o)
			os.MkdirAll(filepath.Dir(p), 0755)
			os.WriteFile(p, []byte("stale garbage of the wrong size"), 0644)
			pre[o] = []byte("stale garbage of the wrong size")
		}
	}
	script := map[string]interface{}{
		"source": src, "pure": true, "get": get,
		"chunk":   []int{32768, 1, 1000, 65516, 4096}[t.Choose(5, "packet-size")],
		"batch":   [][]string{{"ok"}, {"ok"}, {"status500", "ok"}, {"omit-last", "ok"}}[t.Choose(4, "batch-behaviour")],
		"connect": [][]string{{"ok"}, {"ok"}, {"ok", "refuse", "ok"}, {"no-version", "ok"}}[t.Choose(4, "connect-behaviour")],
	}
	env, logFile := sshSetup(w, script)
	rounds := 1 + t.Choose(2, "rounds")
	for r := 0; r < rounds && c.Res.Class == ""; r++ {
		cmd := [][]string{{"lfs", "fetch", "origin"}, {"lfs", "pull"}, {"lfs", "fetch", "--all"}}[t.Choose(3, "download-command")]
		logBefore := len(readSSHLog(logFile))
		out, code := w.Run(u2, &RunOpts{Env: env}, "git", cmd...)
		log := readSSHLog(logFile)[logBefore:]
		okServed := map[string]bool{}
		asked := map[string]bool{}
		for _, e := range log {
			if e.Kind == "get-object" {
				asked[e.Oid] = true
				c.Probe("ssh-get:" + e.Behave)
				if e.Behave == "ok" {
					okServed[e.Oid] = true
				}
			}
			if e.Kind == "batch" {
				c.Probe("ssh-batch:" + e.Behave)
			}
		}
		for _, o := range oids {
			p := ObjectPath(g2, o)
			cur, err := os.ReadFile(p)
			exists := err == nil
			if exists && Oid(cur) == o {
				c.Probe("object-stored-valid")
				if _, had := pre[o]; had || asked[o] {
					if !okServed[o] && asked[o] {
						c.Violation("valid-object-from-bad-answer", "object %s is stored and valid although the peer never served it correctly (served: %v)", o[:12], get[o])
					}
				}
				delete(pre, o)
				continue
			}
			if exists {
				if prev, had := pre[o]; had && bytes.Equal(prev, cur) {
					c.Probe("stale-file-left-alone")
					if okServed[o] && code == 0 && cmd[1] == "fetch" {
						c.Violation("success-with-bad-content", "git %v exited 0 and the peer served %s correctly, but the stale file is still at the final location", cmd, o[:12])
					}
					continue
				}
				c.Violation("bad-object-stored", "after git %v (exit %d) through the ssh adapter (peer behaviour per attempt %v), %d bytes hashing to %s sit at the final location of %s; output: %s", cmd, code, get[o], len(cur), Oid(cur)[:12], o[:12], clipStr(out, 200))
				break
			}
			if _, had := pre[o]; had && cmd[1] != "fetch" {
				c.Probe("stale-file-removed-by-smudge-path")
				delete(pre, o)
				continue
			}
			if _, had := pre[o]; had {
				c.Violation("failure-removed-file", "the file that was at the final location of %s before the download is gone (peer behaviour %v)", o[:12], get[o])
				break
			}
			c.Probe("nothing-stored")
		}
		if code == 0 && c.Res.Class == "" {
			c.Probe("download-exit-0")
			for _, o := range oids {
				if b, err := os.ReadFile(ObjectPath(g2, o)); err != nil || Oid(b) != o {
					c.Violation("success-without-file", "git %v exited 0 but %s (peer behaviour %v) is not validly stored; output: %s", cmd, o[:12], get[o], clipStr(out, 200))
					break
				}
			}
		} else if c.Res.Class == "" {
			c.Probe("download-exit-nonzero")
		}
		// leftovers of failed attempts never sit in the object directory
		for o := range LocalObjects(g2) {
			if len(o) != 64 {
				c.Violation("leftover-in-object-store", "after git %v a file named %q sits in lfs/objects", cmd, o)
			}
		}
		// next round: the peer behaves
		for _, o := range oids {
			get[o] = []string{"ok"}
		}
		script["get"] = get
		script["batch"] = []string{"ok"}
		script["connect"] = []string{"ok"}
		os.RemoveAll(filepath.Join(w.Root, "ssh-state"))
		env, logFile = sshSetup(w, script)
	}
	for _, s := range w.Steps {
		c.T.Note(fmt.Sprintf("%v %d", s.Args[:min(len(s.Args), 4)], s.Exit))
	}
}
