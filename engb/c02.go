package engb

import (
	"bytes"
	"encoding/json"
	"fmt"
	"os"
	"path/filepath"
	"sort"
	"strings"

	"verif/sim"
)

func init() {
	Register("C02.custom", func(c *Ctx) { runC02Custom(c) })
}

// AgentBinary is the orchestrator's own executable (it doubles as the scripted
// custom transfer agent when started with "__lfs_agent").
var AgentBinary string

// runC02Custom: downloads through the custom / standalone transfer adapter
// against a scripted agent process.
func runC02Custom(c *Ctx) {
	t := c.T
	w := c.NewWorld(sim.Faults{})
	c.Res.Nontrivial = true
	remote := w.InitBare("remote.git")
	u1 := filepath.Join(w.Root, "u1")
	h := NewHist(w, u1)
	h.fixedTracking = true
	h.Init()
	w.MustGit(u1, "remote", "add", "origin", remote)
	w.ConfigureClone(u1, nil)
	n := 1 + t.Choose(4, "n-objects")
	for i := 0; i < n; i++ {
		h.WriteFile(fmt.Sprintf("f%d.bin", i), h.NewContent())
	}
	h.commit("files")
	if _, code := w.Git(u1, "push", "-q", "origin", "main"); code != 0 {
		panic(sim.HarnessError{Msg: "push failed: " + w.lastOutput()})
	}
	standalone := t.Choose(2, "standalone") == 1
	if !standalone {
		w.Srv.ScriptedAdapter = "sim"
	}
	u2 := filepath.Join(w.Root, "u2")
	conc := []string{"1", "3"}[t.Choose(2, "concurrency")]
	args := []string{"clone", "-q", "-c", "lfs.url=" + w.LFSURL(), "-c", "lfs.concurrenttransfers=" + conc,
		"-c", "lfs.transfer.maxretries=" + []string{"1", "2"}[t.Choose(2, "maxretries")], "-c", "lfs.transfer.maxretrydelay=0",
		"-c", "lfs.customtransfer.sim.path=" + AgentBinary, "-c", "lfs.customtransfer.sim.args=__lfs_agent",
		"-c", "lfs.customtransfer.sim.concurrent=" + []string{"true", "false"}[t.Choose(2, "agent-concurrent")]}
	if standalone {
		args = append(args, "-c", "lfs.standalonetransferagent=sim")
	}
	args = append(args, remote, u2)
	if _, code := w.GitEnv(w.Root, []string{"GIT_LFS_SKIP_SMUDGE=1"}, args...); code != 0 {
		panic(sim.HarnessError{Msg: "clone failed: " + w.lastOutput()})
	}
	g2 := filepath.Join(u2, ".git")
	// the agent's source of objects and its script
	src := filepath.Join(w.Root, "agent-src")
	tmp := filepath.Join(w.Root, "agent-tmp")
	os.MkdirAll(src, 0755)
	os.MkdirAll(tmp, 0755)
	ptrs := w.TreePointers(u2, "HEAD")
	var oids []string
	for _, p := range ptrs {
		if data, ok := h.Contents[p.Oid]; ok {
			os.WriteFile(filepath.Join(src, p.Oid), data, 0644)
			oids = append(oids, p.Oid)
		}
	}
	sort.Strings(oids)
	kinds := []string{"ok", "ok", "bitflip", "truncated", "extra", "missing-path", "error", "wrong-oid", "garbage", "die"}
	behave := map[string]string{}
	pre := map[string][]byte{}
	for _, o := range oids {
		behave[o] = kinds[t.Choose(len(kinds), "agent-behaviour")]
		if t.Bool(1, 5, "garbage-at-final-path") {
			p := ObjectPath(g2, o)
			os.MkdirAll(filepath.Dir(p), 0755)
			os.WriteFile(p, []byte("stale garbage of the wrong size"), 0644)
			pre[o] = []byte("stale garbage of the wrong size")
		}
	}
	script, _ := json.Marshal(map[string]interface{}{"source": src, "tmp": tmp, "behave": behave, "log": filepath.Join(w.Root, "agent.log")})
	scriptFile := filepath.Join(w.Root, "agent.json")
	os.WriteFile(scriptFile, script, 0644)
	env := []string{"VERIF_AGENT_SCRIPT=" + scriptFile}
	rounds := 1 + t.Choose(2, "rounds")
	for r := 0; r < rounds && c.Res.Class == ""; r++ {
		out, code := w.Run(u2, &RunOpts{Env: env}, "git", "lfs", "fetch", "origin")
		for _, o := range oids {
			p := ObjectPath(g2, o)
			cur, err := os.ReadFile(p)
			exists := err == nil
			kind := behave[o]
			if exists && Oid(cur) == o {
				c.Probe("object-stored-valid")
				if kind != "ok" {
					// a valid object can only come from an ok answer
					c.Violation("valid-object-from-bad-agent-answer", "object %s is stored and valid although the agent was scripted to answer %q", o[:12], kind)
				}
				continue
			}
			if exists {
				if prev, had := pre[o]; had && bytes.Equal(prev, cur) {
					c.Probe("stale-file-left-alone")
					if kind == "ok" && code == 0 {
						c.Violation("success-with-bad-content", "git lfs fetch exited 0 and the agent delivered %s correctly, but the stale file is still at the final location", o[:12])
					}
					continue
				}
				c.Violation("bad-object-stored", "after git lfs fetch (exit %d) through the custom adapter (agent answer %q, standalone=%v), %d bytes hashing to %s sit at the final location of %s; output: %s", code, kind, standalone, len(cur), Oid(cur)[:12], o[:12], clipStr(out, 200))
				break
			}
			if _, had := pre[o]; had {
				c.Violation("failure-removed-file", "the file that was at the final location of %s before the fetch is gone (agent answer %q)", o[:12], kind)
				break
			}
			c.Probe("nothing-stored")
			if kind == "ok" && code == 0 {
				c.Violation("success-without-file", "git lfs fetch exited 0 and the agent delivered %s, but nothing is stored", o[:12])
			}
		}
		allOK := true
		for _, o := range oids {
			if behave[o] != "ok" {
				allOK = false
			}
		}
		if code == 0 && !allOK {
			// exit status 0 although some object could not be fetched: every needed object must then be present
			for _, o := range oids {
				if b, err := os.ReadFile(ObjectPath(g2, o)); err != nil || Oid(b) != o {
					c.Violation("success-without-file", "git lfs fetch exited 0 but %s (agent answer %q) is not validly stored", o[:12], behave[o])
					break
				}
			}
		}
		// second round: the agent behaves for everything
		for _, o := range oids {
			behave[o] = "ok"
		}
		script, _ = json.Marshal(map[string]interface{}{"source": src, "tmp": tmp, "behave": behave, "log": filepath.Join(w.Root, "agent.log")})
		os.WriteFile(scriptFile, script, 0644)
	}
	for _, s := range w.Steps {
		c.T.Note(fmt.Sprintf("%v %d", s.Args[:min(len(s.Args), 4)], s.Exit))
	}
	_ = strings.TrimSpace
}
