package engb

import (
	"encoding/json"
	"fmt"
	"os"
	"path/filepath"
	"sort"
	"strings"

	"verif/sim"
)

func init() {
	Register("C16", func(c *Ctx) { runC16(c, true) })
	Register("C16.nofault", func(c *Ctx) { runC16(c, false) })
}

type lockUser struct {
	name  string
	dir   string
	model map[string]bool   // paths this client believes it holds (reference model)
	ids   map[string]string // path -> id of the lock granted to this client
	// foreignSeen: locks of the other user that this client's last complete
	// verifiable listing returned under "theirs"
	foreignSeen map[string]bool
	// tolerated: paths for which the known defect (foreign locks stored in
	// the own-lock cache) has been recorded; exempt from clauses 2 and 3
	tolerated map[string]bool
	// bitStale: the model changed for this path through a listing (a lock
	// lost to a foreign force-unlock was noticed). Listing commands do not
	// touch write bits and the hooks only revisit files they handle, so the
	// bit is not judged until this client locks or unlocks the path again.
	bitStale map[string]bool
}

// settings.cfg is lockable but not stored in LFS
var lockPaths = []string{"a.dat", "b.dat", "dir/c.dat", "dir/we ird+&=name.dat", "settings.cfg"}

func runC16(c *Ctx, faults bool) {
	t := c.T
	w := c.NewWorld(sim.Faults{})
	c.Res.Nontrivial = true
	var lf sim.LockFaults
	if faults {
		lf.Create5xx = pickRateB(t, "create5xx", 1, 5)
		lf.Create403 = pickRateB(t, "create403", 1, 8)
		lf.Unlock5xx = pickRateB(t, "unlock5xx", 1, 5)
		lf.Unlock403 = pickRateB(t, "unlock403", 1, 8)
		lf.List5xx = pickRateB(t, "list5xx", 1, 6)
		lf.Verify5xx = pickRateB(t, "verify5xx", 1, 6)
		lf.Verify403 = pickRateB(t, "verify403", 1, 10)
		lf.FailSecondPage = pickRateB(t, "failpage2", 1, 2)
		if t.Bool(1, 10, "verify-not-implemented") {
			lf.VerifyNotImplemented = 1 + t.Choose(2, "not-impl-code")
		}
	}
	lf.PageSize = []int{0, 1, 2, 3}[t.Choose(4, "page-size")]
	lt, locks := sim.NewLockTable(lf)
	locks.KnownPaths = map[string]bool{}
	for _, p := range lockPaths {
		locks.KnownPaths[p] = true
	}
	w.Srv.Locks = lt

	remote := w.InitBare("remote.git")
	users := []*lockUser{{name: "alice", dir: filepath.Join(w.Root, "u1"), model: map[string]bool{}, ids: map[string]string{}, foreignSeen: map[string]bool{}, tolerated: map[string]bool{}, bitStale: map[string]bool{}}, {name: "bob", dir: filepath.Join(w.Root, "u2"), model: map[string]bool{}, ids: map[string]string{}, foreignSeen: map[string]bool{}, tolerated: map[string]bool{}, bitStale: map[string]bool{}}}
	verifySetting := []string{"true", "unset", "false"}[t.Choose(3, "locksverify")]
	readOnly := t.Choose(4, "setlockablereadonly") != 0
	urlFor := func(u *lockUser) string {
		return strings.Replace(w.LFSURL(), "http://", "http://"+u.name+":pw-"+u.name+"@", 1)
	}
	configure := func(u *lockUser) {
		w.MustGit(u.dir, "config", "lfs.url", urlFor(u))
		w.MustGit(u.dir, "config", "lfs."+w.LFSURL()+".access", "basic")
		w.MustGit(u.dir, "config", "lfs.transfer.maxretries", "1")
		w.MustGit(u.dir, "config", "lfs.transfer.maxretrydelay", "0")
		if verifySetting != "unset" {
			w.MustGit(u.dir, "config", "lfs."+w.LFSURL()+".locksverify", verifySetting)
		}
		if !readOnly {
			w.MustGit(u.dir, "config", "lfs.setlockablereadonly", "false")
		}
		w.MustGit(u.dir, "config", "user.name", u.name)
	}
	// alice creates the repository
	a := users[0]
	w.MustGit(w.Root, "init", "-q", a.dir)
	w.MustGit(a.dir, "lfs", "install", "--local", "--force")
	os.WriteFile(filepath.Join(a.dir, ".gitattributes"), []byte("*.dat filter=lfs diff=lfs merge=lfs -text lockable\n*.bin filter=lfs diff=lfs merge=lfs -text\n*.cfg lockable\n"), 0644)
	os.MkdirAll(filepath.Join(a.dir, "dir"), 0755)
	for i, p := range append(append([]string{}, lockPaths...), "x.bin", "notes.txt") {
		os.WriteFile(filepath.Join(a.dir, p), []byte(fmt.Sprintf("initial content %d of %s\n", i, p)), 0644)
	}
	w.MustGit(a.dir, "remote", "add", "origin", remote)
	configure(a)
	w.MustGit(a.dir, "add", "-A")
	w.MustGit(a.dir, "commit", "-q", "-m", "initial")
	saved := locks.F
	locks.F = sim.LockFaults{PageSize: lf.PageSize}
	if _, code := w.Git(a.dir, "push", "-q", "origin", "main"); code != 0 {
		panic(sim.HarnessError{Msg: "initial push failed: " + w.lastOutput()})
	}
	b := users[1]
	if _, code := w.Git(w.Root, "clone", "-q", "-c", "lfs.url="+urlFor(b), "-c", "lfs."+w.LFSURL()+".access=basic", remote, b.dir); code != 0 {
		panic(sim.HarnessError{Msg: "clone failed: " + w.lastOutput()})
	}
	w.MustGit(b.dir, "lfs", "install", "--local", "--force")
	configure(b)
	// make the initial write bits consistent in both trees (what a fresh
	// checkout with hooks gives): lockable files read-only
	for _, u := range users {
		w.Git(u.dir, "lfs", "post-checkout", strings.Repeat("0", 40), "HEAD", "1")
	}
	locks.F = saved
	c.checkLocks(w, locks, users, readOnly, "set-up")

	nops := 1 + t.Choose(30, "n-ops")
	for i := 0; i < nops && c.Res.Class == ""; i++ {
		u := users[t.Choose(2, "who")]
		other := users[0]
		if u == users[0] {
			other = users[1]
		}
		p := lockPaths[t.Choose(len(lockPaths), "path")]
		evBefore := len(locks.Events)
		switch t.Choose(12, "lock-op") {
		case 0, 1, 2: // lock (sometimes two paths in one command)
			lockArgs := []string{"lfs", "lock", p}
			p2 := ""
			if t.Bool(1, 4, "lock-two-paths") {
				p2 = lockPaths[t.Choose(len(lockPaths), "path2")]
				if p2 != p {
					lockArgs = append(lockArgs, p2)
				} else {
					p2 = ""
				}
			}
			lockDir := u.dir
			if i := strings.LastIndex(p, "/"); i > 0 && p2 == "" && t.Bool(1, 4, "lock-from-subdirectory") {
				if st, err := os.Stat(filepath.Join(u.dir, p[:i])); err == nil && st.IsDir() {
					lockDir = filepath.Join(u.dir, p[:i])
					lockArgs = []string{"lfs", "lock", p[i+1:]}
					c.Probe("lock-from-subdirectory")
				}
			}
			// sometimes from a detached HEAD (no branch, no upstream ref to name)
			detached := t.Bool(1, 6, "lock-from-detached-head")
			if detached {
				w.Git(u.dir, "checkout", "-q", "--detach")
				c.Probe("lock-from-detached-head")
			}
			_, code := w.Git(lockDir, lockArgs...)
			if detached {
				w.Git(u.dir, "checkout", "-q", "main")
			}
			if p2 != "" {
				if c.sawEvent(locks, evBefore, "granted", u.name, p2) {
					delete(u.bitStale, p2)
					u.ids[p2] = c.eventID(locks, evBefore, "granted", u.name, p2)
					u.model[p2] = true
					c.Probe("lock-granted")
				}
				code = 0 // the exit status of a two-path lock is not judged per path
				if !c.sawEvent(locks, evBefore, "granted", u.name, p) {
					code = 1
				}
			}
			granted := c.sawEvent(locks, evBefore, "granted", u.name, p)
			if code == 0 && !granted {
				c.Violation("lock-reported-without-grant", "%s: git lfs lock %s exited 0 but the server granted nothing", u.name, p)
				return
			}
			if granted {
				delete(u.bitStale, p)
				u.ids[p] = c.eventID(locks, evBefore, "granted", u.name, p)
				u.model[p] = true
				c.Probe("lock-granted")
			} else {
				c.Probe("lock-refused")
			}
		case 3, 4: // unlock (plain / --id / --force)
			args := []string{"lfs", "unlock"}
			kind := t.Choose(3, "unlock-form")
			heldBy := ""
			if l, ok := locks.Table[p]; ok {
				heldBy = l.Owner.Name
			}
			switch kind {
			case 1:
				if l, ok := locks.Table[p]; ok {
					args = append(args, "--id="+l.ID)
				} else {
					args = append(args, p)
				}
			case 2:
				args = append(args, "--force", p)
			default:
				args = append(args, p)
			}
			// sometimes the file is gone from the working tree when its lock is released
			removedFile := false
			if kind == 0 && heldBy == u.name && !isDirty(w, u.dir, p) && t.Bool(1, 5, "unlock-absent-file") {
				w.Git(u.dir, "rm", "-q", "--cached", "--", p)
				os.Remove(filepath.Join(u.dir, p))
				w.Git(u.dir, "commit", "-q", "-m", "remove "+p, "--", p)
				removedFile = true
			}
			dirty := isDirty(w, u.dir, p)
			// sometimes the command is run from the file's directory
			runDir := u.dir
			if i := strings.LastIndex(p, "/"); i > 0 && !removedFile && t.Bool(1, 3, "unlock-from-subdirectory") {
				if st, err := os.Stat(filepath.Join(u.dir, p[:i])); err == nil && st.IsDir() {
					runDir = filepath.Join(u.dir, p[:i])
					for k, a := range args {
						if a == p {
							args[k] = p[i+1:]
						}
					}
					c.Probe("unlock-from-subdirectory")
				}
			}
			detachedU := !removedFile && t.Bool(1, 6, "unlock-from-detached-head")
			if detachedU {
				w.Git(u.dir, "checkout", "-q", "--detach")
				c.Probe("unlock-from-detached-head")
			}
			_, code := w.Git(runDir, args...)
			if detachedU {
				w.Git(u.dir, "checkout", "-q", "main")
			}
			if removedFile {
				// bring the file back so that later steps have something to look at
				w.Git(u.dir, "revert", "--no-edit", "HEAD")
			}
			released := c.sawEvent(locks, evBefore, "released", u.name, p)
			if released {
				delete(u.bitStale, p)
				// only the lock this client was granted leaves its own view:
				// force-releasing somebody else's lock on the same path does
				// not touch the (possibly stale) record of its own lock
				if rid := c.eventID(locks, evBefore, "released", u.name, p); u.ids[p] == rid || u.ids[p] == "" {
					delete(u.model, p)
					delete(u.ids, p)
				} else {
					u.bitStale[p] = true
				}
				c.Probe("lock-released")
				if dirty && kind != 2 {
					c.Violation("unlock-with-uncommitted-changes", "%s: %v released the lock although %s has uncommitted changes and --force was not given", u.name, args, p)
					return
				}
				if heldBy != "" && heldBy != u.name && kind != 2 {
					c.Violation("unlocked-foreign-lock-without-force", "%s: %v released %s's lock without --force", u.name, args, heldBy)
					return
				}
			} else if code == 0 && heldBy == u.name {
				c.Violation("unlock-reported-without-release", "%s: %v exited 0 but the server still holds the lock", u.name, args)
				return
			}
			if dirty && kind != 2 && heldBy == u.name {
				c.Probe("unlock-refused-dirty")
				if code == 0 {
					c.Violation("unlock-with-uncommitted-changes", "%s: %v exited 0 although %s has uncommitted changes", u.name, args, p)
					return
				}
			}
		case 5: // listings
			form := [][]string{{"lfs", "locks"}, {"lfs", "locks", "--verify"}, {"lfs", "locks", "--cached"}, {"lfs", "locks", "--local"}, {"lfs", "locks", "--path=" + p}, {"lfs", "locks", "--verify", "--json"}, {"lfs", "locks", "--json"}}[t.Choose(7, "locks-form")]
			_, code := w.Git(u.dir, form...)
			if code == 0 && len(form) >= 3 && form[2] == "--verify" && c.sawEvent(locks, evBefore, "listed-verify", u.name, "") {
				c.resetModel(locks, u)
			}
		case 6: // edit a file we believe we hold
			if u.model[p] {
				full := filepath.Join(u.dir, p)
				if f, err := os.OpenFile(full, os.O_APPEND|os.O_WRONLY, 0644); err == nil {
					fmt.Fprintf(f, "edit by %s at op %d\n", u.name, i)
					f.Close()
					c.Probe("edited-held-file")
					// sometimes the change is staged: uncommitted all the same
					if t.Bool(1, 3, "stage-the-edit") {
						w.Git(u.dir, "add", "--", p)
						c.Probe("staged-edit-of-held-file")
					}
				} else if readOnly {
					c.Violation("held-file-not-writable", "%s holds the lock on %s (granted, not released) but the file cannot be opened for writing: %v", u.name, p, err)
					return
				}
			}
		case 7: // commit
			w.Git(u.dir, "commit", "-q", "-a", "-m", fmt.Sprintf("commit by %s %d", u.name, i))
		case 8: // checkout: discard changes of a file / switch branch and back
			if t.Choose(2, "checkout-kind") == 0 {
				w.Git(u.dir, "checkout", "-q", "--", p)
			} else {
				// files with uncommitted changes are written back by `git
				// stash pop`, after which no LFS hook runs: their write bit
				// is git's doing and not judged until the next lock/unlock
				var dirtyBefore []string
				for _, lp := range lockPaths {
					if isDirty(w, u.dir, lp) {
						dirtyBefore = append(dirtyBefore, lp)
					}
				}
				w.Git(u.dir, "stash", "push", "-q")
				w.Git(u.dir, "checkout", "-q", "-B", "side")
				w.Git(u.dir, "checkout", "-q", "main")
				w.Git(u.dir, "stash", "pop", "-q")
				for _, lp := range dirtyBefore {
					u.bitStale[lp] = true
				}
			}
		case 9: // modify a file locked by the other user (forcing the write bit), commit
			if l, ok := locks.Table[p]; ok && l.Owner.Name == other.name && !isAnyDirty(w, u.dir) {
				full := filepath.Join(u.dir, p)
				os.Chmod(full, 0644)
				switch t.Choose(4, "foreign-edit-kind") {
				case 1:
					// new content that the remote already has under another path
					if b, err := os.ReadFile(filepath.Join(u.dir, "x.bin")); err == nil {
						os.WriteFile(full, b, 0644)
						c.Probe("foreign-locked-file-set-to-content-the-remote-has")
					}
					w.Git(u.dir, "commit", "-q", "-m", "touch locked file", "--", p)
				case 2:
					// the same new content in this file and in a file nobody has locked
					fresh := []byte(fmt.Sprintf("shared new content by %s at op %d\n", u.name, i))
					os.WriteFile(full, fresh, 0644)
					os.WriteFile(filepath.Join(u.dir, "x.bin"), fresh, 0644)
					w.Git(u.dir, "commit", "-q", "-m", "touch locked file and another", "--", p, "x.bin")
					c.Probe("foreign-locked-file-shares-new-content")
				default:
					if f, err := os.OpenFile(full, os.O_APPEND|os.O_WRONLY, 0644); err == nil {
						fmt.Fprintf(f, "unauthorised edit by %s at op %d\n", u.name, i)
						f.Close()
					}
					w.Git(u.dir, "commit", "-q", "-m", "touch locked file", "--", p)
				}
				c.Probe("committed-change-to-foreign-locked-file")
			}
		case 10: // merge: bring in the other side's pushed work
			w.Git(u.dir, "fetch", "-q", "origin")
			if !isAnyDirty(w, u.dir) {
				if _, code := w.Git(u.dir, "merge", "-q", "--no-edit", "-X", "ours", "origin/main"); code != 0 {
					w.Git(u.dir, "merge", "--abort")
				}
			}
		default: // push
			c.pushWithLocks(w, locks, u, other, remote, verifySetting, evBefore)
		}
		if c.Res.Class == "" {
			c.checkLocks(w, locks, users, readOnly, fmt.Sprintf("op %d by %s", i, u.name))
		}
	}
	// epilogue: the same user's lock, but this clone's cache does not know it
	// (a second clone, a lost cache file): unlock --id must still look at the file
	if c.Res.Class == "" && t.Bool(1, 3, "unlock-by-id-with-unknown-cache") {
		u := users[t.Choose(2, "who-epilogue")]
		var held []string
		for _, p := range lockPaths {
			if l, ok := locks.Table[p]; ok && l.Owner.Name == u.name {
				held = append(held, p)
			}
		}
		sort.Strings(held)
		if len(held) > 0 {
			p := held[t.Choose(len(held), "epilogue-path")]
			id := locks.Table[p].ID
			full := filepath.Join(u.dir, p)
			os.Chmod(full, 0644)
			if f, err := os.OpenFile(full, os.O_APPEND|os.O_WRONLY, 0644); err == nil {
				fmt.Fprintf(f, "uncommitted edit before unlock --id\n")
				f.Close()
			}
			if isDirty(w, u.dir, p) {
				cacheFiles, _ := filepath.Glob(filepath.Join(u.dir, ".git", "lfs", "cache", "locks", "*", "lockcache.db"))
				cacheFiles = append(cacheFiles, filepath.Join(u.dir, ".git", "lfs", "lockcache.db"))
				for _, cf := range cacheFiles {
					os.Remove(cf)
				}
				evBefore := len(locks.Events)
				args := []string{"lfs", "unlock", "--id=" + id}
				w.Git(u.dir, args...)
				c.Probe("unlock-by-id-with-unknown-cache")
				if c.sawEvent(locks, evBefore, "released", u.name, p) {
					c.Violation("unlock-with-uncommitted-changes", "%s: %v (own lock, not in this clone's cache) released the lock although %s has uncommitted changes and --force was not given", u.name, args, p)
				}
			}
		}
	}
	if len(locks.Problems) > 0 {
		c.Probe("lock-api-request-problem")
		c.Res.APIProblems = locks.Problems
	}
	for _, s := range w.Steps {
		c.T.Note(fmt.Sprintf("%s %v %d", s.Dir, s.Args, s.Exit))
	}
}

// eventID returns the lock id of the first matching event ("" if none).
func (c *Ctx) eventID(l *sim.Locks, from int, kind, user, path string) string {
	for _, e := range l.Events[from:] {
		if e.Kind == kind && e.User == user && (path == "" || e.Path == path) {
			return e.ID
		}
	}
	return ""
}

func (c *Ctx) sawEvent(l *sim.Locks, from int, kind, user, path string) bool {
	for _, e := range l.Events[from:] {
		if e.Kind == kind && e.User == user && (path == "" || e.Path == path) {
			return true
		}
	}
	return false
}

// resetModel: after a complete, successful verifiable listing the client's
// view is the server's truth.
func (c *Ctx) resetModel(l *sim.Locks, u *lockUser) {
	old := u.model
	defer func() {
		for _, p := range lockPaths {
			if old[p] != u.model[p] {
				u.bitStale[p] = true
			}
		}
	}()
	u.model = map[string]bool{}
	u.ids = map[string]string{}
	u.foreignSeen = map[string]bool{}
	for p, k := range l.Table {
		if k.Owner.Name == u.name {
			u.model[p] = true
			u.ids[p] = k.ID
		} else {
			u.foreignSeen[p] = true
		}
	}
	c.Probe("model-reset-by-verifiable-listing")
}

func isDirty(w *World, dir, p string) bool {
	out, _ := w.GitQ(dir, "status", "--porcelain", "--", p)
	return strings.TrimSpace(out) != ""
}

func isAnyDirty(w *World, dir string) bool {
	out, _ := w.GitQ(dir, "status", "--porcelain", "-uno")
	return strings.TrimSpace(out) != ""
}

func (c *Ctx) pushWithLocks(w *World, locks *sim.Locks, u, other *lockUser, remote, verifySetting string, evBefore int) {
	// which paths do the commits to be pushed touch?
	w.GitQ(u.dir, "fetch", "-q", "origin")
	changedZ, _ := w.GitQ(u.dir, "diff", "--name-only", "-z", "origin/main", "HEAD")
	var changedPaths []string
	for _, p := range strings.Split(changedZ, "\x00") {
		if p != "" {
			changedPaths = append(changedPaths, p)
		}
	}
	ahead, _ := w.GitQ(u.dir, "rev-list", "--count", "origin/main..HEAD")
	behind, _ := w.GitQ(u.dir, "rev-list", "--count", "HEAD..origin/main")
	if strings.TrimSpace(behind) != "0" {
		return // would be a non-fast-forward: not this property's business
	}
	var touchesForeign []string
	for _, p := range changedPaths {
		if l, ok := locks.Table[p]; ok && l.Owner.Name == other.name {
			touchesForeign = append(touchesForeign, p)
		}
	}
	// does each foreign-locked path get a blob of its own that the remote does not have yet?
	blobNew := map[string]bool{}
	blobOf := map[string]string{}
	for _, p := range changedPaths {
		if b, code := w.GitQ(u.dir, "rev-parse", "-q", "--verify", "HEAD:"+p); code == 0 {
			blobOf[p] = strings.TrimSpace(b)
		}
	}
	for _, p := range touchesForeign {
		b := blobOf[p]
		if b == "" {
			continue // deleted
		}
		_, code := w.GitQ(remote, "cat-file", "-e", b)
		shared := false
		for q, bq := range blobOf {
			if q != p && bq == b {
				shared = true
			}
		}
		blobNew[p] = code != 0 && !shared
	}
	before := w.Refs(remote)
	// sometimes the push creates a new branch on the remote instead of updating main
	dst := "main"
	if c.T.Bool(1, 4, "push-creates-a-branch") {
		c.nNewBranch++
		dst = fmt.Sprintf("HEAD:refs/heads/topic-%s-%d", u.name, c.nNewBranch)
		c.Probe("push-creates-a-branch")
	}
	reqBefore := len(w.Front.Requests())
	out, code := w.Git(u.dir, "push", "-q", "origin", dst)
	after := w.Refs(remote)
	// did a scripted fault get in the way of the verification?
	verifyFailed := false
	for _, r := range w.Front.Requests()[reqBefore:] {
		if r.Kind == "lock-verify" && r.Status != 200 {
			verifyFailed = true
		}
	}
	// The verification a push performs is not written back to the client's
	// persistent cache (the verifier's lock client is never closed), so it is
	// not a point at which the client's view is refreshed: only
	// `git lfs locks --verify` resets the reference model.
	listed := c.sawEvent(locks, evBefore, "listed-verify", u.name, "")
	if strings.TrimSpace(ahead) == "0" {
		return
	}
	// (a server that answered 404/501 to an earlier verification made the
	// client switch the setting off for this endpoint: read it as it is now)
	clientURL, _ := w.GitQ(u.dir, "config", "lfs.url")
	if cur, _ := w.GitQ(u.dir, "config", "--get-urlmatch", "lfs.locksverify", strings.TrimSpace(clientURL)); strings.TrimSpace(cur) != "true" && verifySetting == "true" {
		c.Probe("locksverify-switched-off-by-the-client")
		verifySetting = strings.TrimSpace(cur)
	}
	if len(touchesForeign) > 0 && verifySetting == "true" {
		c.Probe("push-touching-foreign-lock")
		// the verification itself may have been made impossible by a scripted
		// fault; not asking the server at all is no excuse
		verifyWorked := listed || !verifyFailed
		if code == 0 && verifyWorked {
			// the recorded shape: every foreign-locked path the push touches
			// got a blob that is not new to the remote, or shares its new blob
			// with another changed path (the verification looks at the names
			// of new objects, not at the paths the commits change)
			notNew := len(blobNew) > 0
			for _, p := range touchesForeign {
				if blobNew[p] {
					notNew = false
				}
			}
			if notNew {
				c.Soft("push-accepted-foreign-lock-no-new-object", "%s: git push exited 0 although the pushed commits modify %v locked by %s and lock verification is enabled; none of these paths received an object of its own that is new to the remote; output: %s", u.name, touchesForeign, other.name, clipStr(out, 200))
				return
			}
			c.Violation("push-accepted-despite-foreign-lock", "%s: git push exited 0 although the pushed commits modify %v locked by %s and lock verification is enabled; output: %s", u.name, touchesForeign, other.name, clipStr(out, 200))
			return
		}
		if code != 0 && !refsEqual(before, after) {
			c.Violation("rejected-push-moved-refs", "%s: push touching %v (locked by %s) exited %d but the remote's refs changed", u.name, touchesForeign, other.name, code)
			return
		}
	}
	if len(touchesForeign) == 0 && code != 0 && strings.Contains(out, "Cannot update locked files") {
		c.Violation("push-rejected-for-own-lock", "%s: push was rejected for locked files although none of the changed paths %v is locked by another user; output: %s", u.name, changedPaths, clipStr(out, 200))
	}
}

// checkLocks evaluates clauses (2) and (3) for both users.
func (c *Ctx) checkLocks(w *World, locks *sim.Locks, users []*lockUser, readOnly bool, when string) {
	for _, u := range users {
		out, code := w.GitQ(u.dir, "lfs", "locks", "--local", "--json")
		if code != 0 {
			continue
		}
		var ls []struct {
			Path string `json:"path"`
		}
		if err := json.Unmarshal([]byte(strings.TrimSpace(out)), &ls); err != nil {
			continue
		}
		got := map[string]bool{}
		for _, l := range ls {
			got[l.Path] = true
		}
		// known defect: a verifiable listing stores the other user's locks in
		// the own-lock cache. Recognised by exactly this shape: every surplus
		// entry is a lock the last verifiable listing returned under "theirs".
		for p := range got {
			if !u.model[p] && u.foreignSeen[p] && !u.tolerated[p] {
				u.tolerated[p] = true
				c.Soft("own-cache-lists-foreign-lock", "after %s: `git lfs locks --local` of %s lists %s, which its last verifiable listing reported as locked by the other user", when, u.name, p)
			}
		}
		gotJ, modelJ := map[string]bool{}, map[string]bool{}
		for p := range got {
			if !u.tolerated[p] {
				gotJ[p] = true
			}
		}
		for p := range u.model {
			if !u.tolerated[p] {
				modelJ[p] = true
			}
		}
		if !sameSet(gotJ, modelJ) {
			c.Violation("own-lock-cache-wrong", "after %s: `git lfs locks --local` of %s lists %v but the server granted (and has not released) %v", when, u.name, keysB(got), keysB(u.model))
			return
		}
		c.Probe("own-lock-cache-checked")
		if !readOnly {
			continue
		}
		for _, p := range lockPaths {
			st, err := os.Stat(filepath.Join(u.dir, p))
			if err != nil {
				continue
			}
			writable := st.Mode().Perm()&0200 != 0
			if u.tolerated[p] || u.bitStale[p] {
				continue
			}
			if writable != u.model[p] {
				// a file with uncommitted edits of a lock we just lost by force stays writable: not judged
				c.Violation("write-bit-wrong", "after %s: %s's %s is writable=%v but the client holds its lock=%v (server owner: %s)", when, u.name, p, writable, u.model[p], ownerOf(locks, p))
				return
			}
		}
		c.Probe("write-bits-checked")
	}
	// non-lockable files never lose their write bit
	for _, u := range users {
		for _, p := range []string{"x.bin", "notes.txt"} {
			if st, err := os.Stat(filepath.Join(u.dir, p)); err == nil && st.Mode().Perm()&0200 == 0 {
				c.Violation("non-lockable-file-read-only", "after %s: %s's %s (not lockable) lost its write bit", when, u.name, p)
				return
			}
		}
	}
}

func ownerOf(l *sim.Locks, p string) string {
	if k, ok := l.Table[p]; ok {
		return k.Owner.Name
	}
	return "<nobody>"
}

var _ = sort.Strings
