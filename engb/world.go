// Package engb is engine B ("procsim"): the real git and the real git-lfs
// binary (built with -tags verif from /repo) run as a sequence of processes
// over clones, a bare remote and the simulated LFS server on loopback. The
// tape decides the operation history, the server's fault script and kill
// points; no decision depends on arrival order or real time.
package engb

import (
	"bytes"
	"context"
	"crypto/sha256"
	"encoding/hex"
	"fmt"
	"hash/fnv"
	"io"
	"net"
	"net/http"
	"os"
	"os/exec"
	"path/filepath"
	"sort"
	"strings"
	"sync"
	"syscall"
	"time"

	"verif/sim"
)

// KeyedChooser makes every server-side fault decision a pure function of
// (script seed, request key, label, per-key attempt number).
type KeyedChooser struct {
	Seed   uint64
	mu     sync.Mutex
	counts map[string]int
}

func NewKeyedChooser(seed uint64) *KeyedChooser {
	return &KeyedChooser{Seed: seed, counts: map[string]int{}}
}

func (k *KeyedChooser) Choose(key string, n int, label string) int {
	if n <= 1 {
		return 0
	}
	k.mu.Lock()
	id := key + "|" + label
	c := k.counts[id]
	k.counts[id]++
	k.mu.Unlock()
	h := fnv.New64a()
	fmt.Fprintf(h, "%d|%s|%d", k.Seed, id, c)
	v := h.Sum64()
	v ^= v >> 29
	v *= 0xbf58476d1ce4e5b9
	v ^= v >> 32
	return int(v % uint64(n))
}

// Front puts a sim.LFSServer behind a loopback HTTP listener.
type Front struct {
	Srv  *sim.LFSServer
	mu   sync.Mutex
	Log  []*sim.ReqRec
	ln   net.Listener
	hs   *http.Server
	Base string // http://127.0.0.1:port
	// Stall, when set, may hold a response half way: it returns how many body
	// bytes to send first and a channel to wait for before sending the rest
	// (nil = do not stall). Called without the front's lock held.
	Stall func(rec *sim.ReqRec, bodyLen int) (after int, release <-chan struct{})
}

func NewFront(srv *sim.LFSServer) (*Front, error) {
	ln, err := net.Listen("tcp", "127.0.0.1:0")
	if err != nil {
		return nil, err
	}
	f := &Front{Srv: srv, ln: ln, Base: "http://" + ln.Addr().String()}
	srv.APIOrigin = f.Base
	srv.StorageOrigin = f.Base
	t0 := time.Now()
	srv.Now = func() time.Duration { return time.Since(t0) }
	srv.WallNow = time.Now
	f.hs = &http.Server{Handler: f}
	go f.hs.Serve(ln)
	return f, nil
}

func (f *Front) Close() {
	ctx, cancel := context.WithTimeout(context.Background(), 2*time.Second)
	defer cancel()
	f.hs.Shutdown(ctx)
	f.hs.Close()
}

func (f *Front) ServeHTTP(w http.ResponseWriter, r *http.Request) {
	body, _ := io.ReadAll(r.Body)
	rec := &sim.ReqRec{
		Method: r.Method, Scheme: "http", Host: r.Host, Path: r.URL.Path, Query: r.URL.RawQuery,
		URL: "http://" + r.Host + r.URL.RequestURI(), Header: r.Header.Clone(), Body: body,
	}
	f.mu.Lock()
	rec.Seq = len(f.Log)
	f.Log = append(f.Log, rec)
	resp := f.Srv.Serve(rec)
	rec.Status = resp.Status
	rec.Note = resp.Note
	rec.Delivered = resp.Err == nil
	f.mu.Unlock()
	if resp.Err != nil {
		if hj, ok := w.(http.Hijacker); ok {
			if c, _, err := hj.Hijack(); err == nil {
				c.Close()
				return
			}
		}
		w.WriteHeader(502)
		return
	}
	for k, vs := range resp.Header {
		for _, v := range vs {
			w.Header().Add(k, v)
		}
	}
	bodyOut := resp.Body
	cut := false
	if resp.ReadErrAfter >= 0 && resp.ReadErrAfter < len(bodyOut) {
		w.Header().Set("Content-Length", fmt.Sprint(len(bodyOut)))
		bodyOut = bodyOut[:resp.ReadErrAfter]
		cut = true
	} else if resp.DeclaredLength >= 0 && resp.DeclaredLength != int64(len(bodyOut)) {
		w.Header().Set("Content-Length", fmt.Sprint(resp.DeclaredLength))
		cut = resp.DeclaredLength > int64(len(bodyOut))
		if resp.DeclaredLength < int64(len(bodyOut)) {
			bodyOut = bodyOut[:resp.DeclaredLength]
		}
	} else if !resp.NoLength {
		w.Header().Set("Content-Length", fmt.Sprint(len(bodyOut)))
	}
	w.WriteHeader(resp.Status)
	if f.Stall != nil && !cut {
		if after, release := f.Stall(rec, len(bodyOut)); release != nil && after < len(bodyOut) {
			w.Write(bodyOut[:after])
			if fl, ok := w.(http.Flusher); ok {
				fl.Flush()
			}
			select {
			case <-release:
			case <-time.After(30 * time.Second):
			}
			bodyOut = bodyOut[after:]
		}
	}
	w.Write(bodyOut)
	if cut {
		if fl, ok := w.(http.Flusher); ok {
			fl.Flush()
		}
		if hj, ok := w.(http.Hijacker); ok {
			if c, _, err := hj.Hijack(); err == nil {
				c.Close()
			}
		}
	}
}

// Requests returns a copy of the request log.
func (f *Front) Requests() []*sim.ReqRec {
	f.mu.Lock()
	defer f.mu.Unlock()
	return append([]*sim.ReqRec(nil), f.Log...)
}

// World is one scenario's set of repositories and its server.
type World struct {
	Root    string
	Home    string
	BinDir  string
	Srv     *sim.LFSServer
	Front   *Front
	Chooser *KeyedChooser
	T       *sim.Tape
	Steps   []StepRec
	// Dates: simulated "now"; commit dates are expressed relative to it.
	Now time.Time
	// ExtraEnv is added to every process.
	ExtraEnv []string
	Hang     string
	// Extra: further LFS servers (one store each), for remotes that do not
	// share the first one; RemoteSrv maps a bare remote's directory to its server.
	Extra     []*Front
	stepMu    sync.Mutex
	RemoteSrv map[string]*Front
	// FileRemotes: bare remotes reached through file:// URLs. Their LFS store
	// is <remote>/lfs/objects, written by git-lfs's own standalone agent.
	FileRemotes map[string]bool
	// SSHStores: bare remotes whose LFS objects are served by the scripted ssh
	// peer from a flat directory of files named by object id.
	SSHStores map[string]string
}

// StepRec is one executed process.
type StepRec struct {
	Dir    string   `json:"dir"`
	Args   []string `json:"args"`
	Exit   int      `json:"exit"`
	Killed bool     `json:"killed,omitempty"`
	Out    string   `json:"out,omitempty"`
}

func NewWorld(root, binDir string, t *sim.Tape, faults sim.Faults) (*World, error) {
	os.RemoveAll(root)
	if err := os.MkdirAll(filepath.Join(root, "home"), 0755); err != nil {
		return nil, err
	}
	w := &World{Root: root, Home: filepath.Join(root, "home"), BinDir: binDir, T: t, Now: time.Now().UTC().Truncate(time.Hour)}
	w.Chooser = NewKeyedChooser(t.Seed)
	w.Srv = sim.NewLFSServer(w.Chooser, faults)
	fr, err := NewFront(w.Srv)
	if err != nil {
		return nil, err
	}
	w.Front = fr
	gitconfig := `[user]
	name = Sim User
	email = sim@example.invalid
[init]
	defaultBranch = main
[filter "lfs"]
	clean = git-lfs clean -- %f
	smudge = git-lfs smudge -- %f
	process = git-lfs filter-process
	required = true
[protocol "file"]
	allow = always
[advice]
	detachedHead = false
[gc]
	auto = 0
`
	os.WriteFile(filepath.Join(w.Home, ".gitconfig"), []byte(gitconfig), 0644)
	return w, nil
}

func (w *World) Close() {
	if w.Front != nil {
		w.Front.Close()
	}
	for _, f := range w.Extra {
		f.Close()
	}
}

// AddServer starts another simulated LFS server (its own object store, the
// same fault configuration and chooser) and returns its front.
func (w *World) AddServer() *Front {
	srv := sim.NewLFSServer(w.Chooser, w.Srv.F)
	fr, err := NewFront(srv)
	if err != nil {
		panic(sim.HarnessError{Msg: "second LFS server: " + err.Error()})
	}
	w.Extra = append(w.Extra, fr)
	return fr
}

// StoreKey names the object store behind a bare remote (a server, or the
// remote's own directory for file:// remotes).
func (w *World) StoreKey(remote string) string {
	if w.FileRemotes[remote] {
		return "file:" + remote
	}
	if d, ok := w.SSHStores[remote]; ok {
		return "ssh:" + d
	}
	return "http:" + w.FrontFor(remote).Base
}

// StoreGet reads one object of the store behind a remote.
func (w *World) StoreGet(remote, oid string) ([]byte, bool) {
	if d, ok := w.SSHStores[remote]; ok {
		b, err := os.ReadFile(filepath.Join(d, oid))
		return b, err == nil
	}
	if w.FileRemotes[remote] {
		b, err := os.ReadFile(ObjectPath(remote, oid))
		return b, err == nil
	}
	fr := w.FrontFor(remote)
	fr.mu.Lock()
	defer fr.mu.Unlock()
	b, ok := fr.Srv.Store[oid]
	return b, ok
}

// StorePut places an object in the store behind a remote (harness set-up).
func (w *World) StorePut(remote, oid string, data []byte) {
	if d, ok := w.SSHStores[remote]; ok {
		os.MkdirAll(d, 0755)
		os.WriteFile(filepath.Join(d, oid), data, 0644)
		return
	}
	if w.FileRemotes[remote] {
		p := ObjectPath(remote, oid)
		os.MkdirAll(filepath.Dir(p), 0755)
		os.WriteFile(p, data, 0644)
		return
	}
	fr := w.FrontFor(remote)
	fr.mu.Lock()
	fr.Srv.Store[oid] = data
	fr.mu.Unlock()
}

// StoreDelete removes an object from the store behind a remote.
func (w *World) StoreDelete(remote, oid string) {
	if d, ok := w.SSHStores[remote]; ok {
		os.Remove(filepath.Join(d, oid))
		return
	}
	if w.FileRemotes[remote] {
		os.Remove(ObjectPath(remote, oid))
		return
	}
	fr := w.FrontFor(remote)
	fr.mu.Lock()
	delete(fr.Srv.Store, oid)
	fr.mu.Unlock()
}

// StoreOids lists the store behind a remote.
func (w *World) StoreOids(remote string) []string {
	var out []string
	if d, ok := w.SSHStores[remote]; ok {
		ents, _ := os.ReadDir(d)
		for _, e := range ents {
			if len(e.Name()) == 64 {
				out = append(out, e.Name())
			}
		}
	} else if w.FileRemotes[remote] {
		for o := range LocalObjects(remote) {
			out = append(out, o)
		}
	} else {
		fr := w.FrontFor(remote)
		fr.mu.Lock()
		for o := range fr.Srv.Store {
			out = append(out, o)
		}
		fr.mu.Unlock()
	}
	sort.Strings(out)
	return out
}

// FrontFor returns the LFS server that serves a bare remote.
func (w *World) FrontFor(remote string) *Front {
	if f, ok := w.RemoteSrv[remote]; ok {
		return f
	}
	return w.Front
}

func (w *World) env(extra ...string) []string {
	env := []string{
		"HOME=" + w.Home,
		"XDG_CONFIG_HOME=" + filepath.Join(w.Home, ".config"),
		"GIT_CONFIG_NOSYSTEM=1",
		"GIT_CONFIG_GLOBAL=" + filepath.Join(w.Home, ".gitconfig"),
		"GIT_TERMINAL_PROMPT=0",
		"GIT_ASKPASS=",
		"PATH=" + w.BinDir + ":" + os.Getenv("PATH"),
		"TZ=UTC", "LC_ALL=C", "LANG=C",
		"GIT_LFS_FORCE_PROGRESS=0",
		"GIT_TRACE=0",
		"GIT_EDITOR=true",
		"GIT_MERGE_AUTOEDIT=no",
		"TMPDIR=" + filepath.Join(w.Root, "tmp"),
	}
	env = append(env, w.ExtraEnv...)
	return append(env, extra...)
}

// RunOpts tunes one process.
type RunOpts struct {
	Env   []string
	Stdin []byte
	// Quiet: do not record the step
	Quiet bool
}

// Run executes one process to completion (or to its SIGKILL / watchdog).
func (w *World) Run(dir string, opts *RunOpts, name string, args ...string) (out string, exit int) {
	os.MkdirAll(filepath.Join(w.Root, "tmp"), 0755)
	ctx, cancel := context.WithTimeout(context.Background(), 90*time.Second)
	defer cancel()
	cmd := exec.CommandContext(ctx, name, args...)
	cmd.Dir = dir
	// The watchdog must end the whole process tree (git, the shell that runs
	// the filter, git-lfs) and must not wait for a surviving descendant that
	// still holds the output pipe.
	cmd.SysProcAttr = &syscall.SysProcAttr{Setpgid: true}
	cmd.Cancel = func() error {
		if cmd.Process != nil {
			syscall.Kill(-cmd.Process.Pid, syscall.SIGKILL)
			return cmd.Process.Kill()
		}
		return nil
	}
	cmd.WaitDelay = 5 * time.Second
	var extra []string
	if opts != nil {
		extra = opts.Env
		if opts.Stdin != nil {
			cmd.Stdin = bytes.NewReader(opts.Stdin)
		}
	}
	cmd.Env = w.env(extra...)
	var buf bytes.Buffer
	cmd.Stdout = &buf
	cmd.Stderr = &buf
	err := cmd.Run()
	if cmd.Process != nil {
		// nothing of this command's process group outlives it
		syscall.Kill(-cmd.Process.Pid, syscall.SIGKILL)
	}
	out = buf.String()
	killed := false
	if err != nil {
		if ee, ok := err.(*exec.ExitError); ok {
			exit = ee.ExitCode()
			if exit == -1 {
				killed = true
				exit = 137
			}
		} else {
			exit = 127
			out += "\n" + err.Error()
		}
	}
	if ctx.Err() != nil {
		w.Hang = fmt.Sprintf("%s %v in %s did not finish within the watchdog", name, args, dir)
	}
	if opts == nil || !opts.Quiet {
		o := out
		if len(o) > 1500 {
			o = o[:700] + "\n…\n" + o[len(o)-700:]
		}
		w.stepMu.Lock()
		w.Steps = append(w.Steps, StepRec{Dir: filepath.Base(dir), Args: append([]string{name}, args...), Exit: exit, Killed: killed, Out: o})
		w.stepMu.Unlock()
	}
	return out, exit
}

// Git runs git in dir.
func (w *World) Git(dir string, args ...string) (string, int) {
	return w.Run(dir, nil, "git", args...)
}

// GitQ runs git without recording the step (oracle plumbing).
func (w *World) GitQ(dir string, args ...string) (string, int) {
	return w.Run(dir, &RunOpts{Quiet: true}, "git", args...)
}

// MustGit fails the scenario set-up on error (harness trouble, not a finding).
func (w *World) MustGit(dir string, args ...string) string {
	out, code := w.Git(dir, args...)
	if code != 0 {
		panic(sim.HarnessError{Msg: fmt.Sprintf("git %v in %s: exit %d: %s", args, dir, code, out)})
	}
	return out
}

// GitEnv runs git with extra environment.
func (w *World) GitEnv(dir string, env []string, args ...string) (string, int) {
	return w.Run(dir, &RunOpts{Env: env}, "git", args...)
}

// LFSURL is the LFS endpoint of the simulated server for repo name.
func (w *World) LFSURL() string { return w.Front.Base + w.Srv.APIPrefix }

// InitBare creates the bare remote.
func (w *World) InitBare(name string) string {
	dir := filepath.Join(w.Root, name)
	w.MustGit(w.Root, "init", "-q", "--bare", dir)
	return dir
}

// ConfigureClone sets the LFS settings of a work tree.
func (w *World) ConfigureClone(dir string, settings map[string]string) {
	base := map[string]string{
		"lfs.url":                    w.LFSURL(),
		"lfs.transfer.maxretries":    "2",
		"lfs.transfer.maxretrydelay": "0",
		"lfs.locksverify":            "false",
	}
	for k, v := range settings {
		base[k] = v
	}
	keys := make([]string, 0, len(base))
	for k := range base {
		keys = append(keys, k)
	}
	sort.Strings(keys)
	for _, k := range keys {
		if base[k] == "" {
			continue // an empty value leaves the key unset
		}
		w.MustGit(dir, "config", k, base[k])
	}
}

// Oid is sha256 hex.
func Oid(b []byte) string {
	h := sha256.Sum256(b)
	return hex.EncodeToString(h[:])
}

// LocalObjects lists .git/lfs/objects of a work tree: oid(file name) -> content.
func LocalObjects(gitDir string) map[string][]byte {
	out := map[string][]byte{}
	root := filepath.Join(gitDir, "lfs", "objects")
	filepath.Walk(root, func(p string, info os.FileInfo, err error) error {
		if err == nil && info.Mode().IsRegular() {
			b, _ := os.ReadFile(p)
			out[filepath.Base(p)] = b
		}
		return nil
	})
	return out
}

// ObjectPath is the path of an object in a store.
func ObjectPath(gitDir, oid string) string {
	return filepath.Join(gitDir, "lfs", "objects", oid[0:2], oid[2:4], oid)
}

// ParsePointer is the harness's own strict reader of canonical-ish pointer
// text: returns oid and size, ok=false if the blob is not a pointer.
func ParsePointer(b []byte) (oid string, size int64, ok bool) {
	if len(b) >= 1024 || len(b) == 0 {
		return "", 0, false
	}
	lines := strings.Split(strings.TrimRight(string(b), "\n"), "\n")
	if len(lines) < 3 || !strings.HasPrefix(lines[0], "version https://git-lfs.github.com/spec/v1") {
		return "", 0, false
	}
	size = -1
	for _, l := range lines[1:] {
		switch {
		case strings.HasPrefix(l, "oid sha256:"):
			oid = strings.TrimPrefix(l, "oid sha256:")
		case strings.HasPrefix(l, "size "):
			var n int64
			if _, err := fmt.Sscanf(strings.TrimPrefix(l, "size "), "%d", &n); err != nil {
				return "", 0, false
			}
			size = n
		case strings.HasPrefix(l, "ext-"):
		default:
			return "", 0, false
		}
	}
	if len(oid) != 64 || size < 0 {
		return "", 0, false
	}
	for _, c := range oid {
		if !(c >= '0' && c <= '9' || c >= 'a' && c <= 'f') {
			return "", 0, false
		}
	}
	return oid, size, true
}

// PointerText is the canonical pointer.
func PointerText(oid string, size int64) string {
	return fmt.Sprintf("version https://git-lfs.github.com/spec/v1\noid sha256:%s\nsize %d\n", oid, size)
}
