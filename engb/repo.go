package engb

import (
	"bytes"
	"fmt"
	"os"
	"path/filepath"
	"sort"
	"strconv"
	"strings"
	"time"

	"verif/sim"
)

// PtrRef is one LFS pointer found by git plumbing.
type PtrRef struct {
	Oid   string
	Size  int64
	Blob  string
	Paths []string
}

// gitIn runs git with stdin, unrecorded, returning raw stdout.
func (w *World) gitIn(dir string, stdin []byte, args ...string) (string, int) {
	return w.Run(dir, &RunOpts{Quiet: true, Stdin: stdin}, "git", args...)
}

// blobPointers reads the given blobs and returns those that are pointers.
func (w *World) blobPointers(dir string, blobs map[string][]string) map[string]*PtrRef {
	out := map[string]*PtrRef{}
	if len(blobs) == 0 {
		return out
	}
	var ids []string
	for id := range blobs {
		ids = append(ids, id)
	}
	sort.Strings(ids)
	check, code := w.gitIn(dir, []byte(strings.Join(ids, "\n")+"\n"), "cat-file", "--batch-check=%(objectname) %(objecttype) %(objectsize)")
	if code != 0 {
		panic(sim.HarnessError{Msg: "cat-file --batch-check failed: " + check})
	}
	var small []string
	for _, l := range strings.Split(strings.TrimSpace(check), "\n") {
		f := strings.Fields(l)
		if len(f) != 3 || f[1] != "blob" {
			continue
		}
		n, _ := strconv.Atoi(f[2])
		if n < 1024 && n > 0 {
			small = append(small, f[0])
		}
	}
	if len(small) == 0 {
		return out
	}
	raw, code := w.gitIn(dir, []byte(strings.Join(small, "\n")+"\n"), "cat-file", "--batch")
	if code != 0 {
		panic(sim.HarnessError{Msg: "cat-file --batch failed"})
	}
	b := []byte(raw)
	for len(b) > 0 {
		nl := bytes.IndexByte(b, '\n')
		if nl < 0 {
			break
		}
		hdr := strings.Fields(string(b[:nl]))
		if len(hdr) != 3 {
			break
		}
		n, _ := strconv.Atoi(hdr[2])
		if nl+1+n > len(b) {
			break
		}
		content := b[nl+1 : nl+1+n]
		b = b[nl+1+n:]
		if len(b) > 0 && b[0] == '\n' {
			b = b[1:]
		}
		if oid, size, ok := ParsePointer(content); ok {
			p := out[oid]
			if p == nil {
				p = &PtrRef{Oid: oid, Size: size, Blob: hdr[0]}
				out[oid] = p
			}
			p.Paths = append(p.Paths, blobs[hdr[0]]...)
		}
	}
	return out
}

// ReachablePointers: every pointer blob reachable from the given rev-list
// arguments (e.g. "--all"), by git plumbing only.
func (w *World) ReachablePointers(dir string, revArgs ...string) map[string]*PtrRef {
	args := append([]string{"rev-list", "--objects"}, revArgs...)
	out, code := w.GitQ(dir, args...)
	if code != 0 {
		if strings.Contains(out, "bad revision") || strings.TrimSpace(out) == "" {
			return map[string]*PtrRef{}
		}
		panic(sim.HarnessError{Msg: "rev-list failed: " + out})
	}
	blobs := map[string][]string{}
	for _, l := range strings.Split(out, "\n") {
		if len(l) < 40 {
			continue
		}
		id := l[:40]
		path := ""
		if len(l) > 41 {
			path = l[41:]
		}
		blobs[id] = append(blobs[id], path)
	}
	return w.blobPointers(dir, blobs)
}

// TreePointers: pointers in one tree-ish, path -> pointer.
func (w *World) TreePointers(dir, treeish string) map[string]*PtrRef {
	out, code := w.GitQ(dir, "ls-tree", "-r", "-z", treeish)
	if code != 0 {
		return map[string]*PtrRef{}
	}
	blobs := map[string][]string{}
	for _, e := range strings.Split(out, "\x00") {
		tab := strings.IndexByte(e, '\t')
		if tab < 0 {
			continue
		}
		f := strings.Fields(e[:tab])
		if len(f) != 3 || f[1] != "blob" {
			continue
		}
		blobs[f[2]] = append(blobs[f[2]], e[tab+1:])
	}
	byOid := w.blobPointers(dir, blobs)
	res := map[string]*PtrRef{}
	for _, p := range byOid {
		for _, path := range p.Paths {
			res[path] = p
		}
	}
	return res
}

// IndexPointers: pointers staged in the index, path -> pointer.
func (w *World) IndexPointers(dir string) map[string]*PtrRef {
	out, code := w.GitQ(dir, "ls-files", "-s", "-z")
	if code != 0 {
		return map[string]*PtrRef{}
	}
	blobs := map[string][]string{}
	for _, e := range strings.Split(out, "\x00") {
		tab := strings.IndexByte(e, '\t')
		if tab < 0 {
			continue
		}
		f := strings.Fields(e[:tab])
		if len(f) != 3 {
			continue
		}
		blobs[f[1]] = append(blobs[f[1]], e[tab+1:])
	}
	byOid := w.blobPointers(dir, blobs)
	res := map[string]*PtrRef{}
	for _, p := range byOid {
		for _, path := range p.Paths {
			res[path] = p
		}
	}
	return res
}

// Refs lists refs of a repository: name -> sha.
func (w *World) Refs(dir string) map[string]string {
	out, _ := w.GitQ(dir, "for-each-ref", "--format=%(refname) %(objectname)")
	m := map[string]string{}
	for _, l := range strings.Split(strings.TrimSpace(out), "\n") {
		f := strings.Fields(l)
		if len(f) == 2 {
			m[f[0]] = f[1]
		}
	}
	return m
}

func refsEqual(a, b map[string]string) bool {
	if len(a) != len(b) {
		return false
	}
	for k, v := range a {
		if b[k] != v {
			return false
		}
	}
	return true
}

// ---- history generator --------------------------------------------------------

// Hist generates and executes a history in one work tree.
type Hist struct {
	W        *World
	T        *sim.Tape
	Dir      string
	Contents map[string][]byte // oid -> bytes, every content ever written to an LFS path
	nContent int
	nCommit  int
	Branches []string
	Tags     []string
	Cur      string
	// DayOffset: commits get dates Now - DayOffset days (+ hours); the
	// generator moves it towards 0 as history grows.
	DayOffset int
	Tracked   []string // patterns currently tracked
	Ops       []string
	paths     []string
	// attrSpelling: attribute list written after each tracked pattern
	attrSpelling string
	// fixedTracking: never change what is tracked
	fixedTracking bool
	// attrPad: .gitattributes is longer than 1 KiB
	attrPad bool
	// tagLikeBranch: tags may take the name of an existing branch
	tagLikeBranch bool
}

var histPaths = []string{"a.bin", "b.bin", "dir/c.bin", "dir/sub/d.bin", "e.dat", "notes.txt", "dir/readme.txt"}

func NewHist(w *World, dir string) *Hist {
	return &Hist{W: w, T: w.T, Dir: dir, Contents: map[string][]byte{}, Cur: "main", Branches: []string{"main"}, DayOffset: 30, paths: histPaths}
}

func (h *Hist) log(format string, a ...interface{}) {
	h.Ops = append(h.Ops, fmt.Sprintf(format, a...))
}

// NewContent makes fresh, unique, non-pointer content.
func (h *Hist) NewContent() []byte {
	h.nContent++
	sz := []int{40, 1, 300, 1500, 2048, 70000}[h.T.Choose(6, "content-size")]
	var b bytes.Buffer
	fmt.Fprintf(&b, "content %d of seed %d\n", h.nContent, h.T.Seed)
	r := sim.NewSplitMix(uint64(h.nContent)*7919 + h.T.Seed)
	for b.Len() < sz {
		fmt.Fprintf(&b, "%016x\n", r.Next())
	}
	out := b.Bytes()
	if sz == 1 {
		out = []byte{byte('A' + h.nContent%26), byte('a' + (h.nContent/26)%26)}
	}
	return out
}

func (h *Hist) isLFSPath(p string) bool {
	for _, pat := range h.Tracked {
		if strings.HasPrefix(pat, "*.") && strings.HasSuffix(p, pat[1:]) {
			return true
		}
	}
	return false
}

// Init creates the work tree with tracking attributes and a first commit.
func (h *Hist) Init() {
	w := h.W
	w.MustGit(w.Root, "init", "-q", h.Dir)
	w.MustGit(h.Dir, "lfs", "install", "--local", "--force")
	h.Tracked = []string{"*.bin", "*.dat"}
	h.writeAttributes()
	h.commit("initial")
}

func (h *Hist) writeAttributes() {
	var b strings.Builder
	sp := h.attrSpelling
	if sp == "" {
		sp = "filter=lfs diff=lfs merge=lfs -text"
	}
	if h.attrPad {
		// a long attributes file (comments push it beyond 1 KiB)
		for i := 0; i < 24; i++ {
			fmt.Fprintf(&b, "# %02d: notes about how files in this repository are tracked\n", i)
		}
	}
	for _, p := range h.Tracked {
		fmt.Fprintf(&b, "%s %s\n", p, sp)
	}
	os.WriteFile(filepath.Join(h.Dir, ".gitattributes"), []byte(b.String()), 0644)
}

func (h *Hist) dateEnv() []string {
	h.nCommit++
	d := h.W.Now.Add(-time.Duration(h.DayOffset)*24*time.Hour + time.Duration(h.nCommit)*time.Minute)
	s := d.Format("2006-01-02T15:04:05Z")
	return []string{"GIT_AUTHOR_DATE=" + s, "GIT_COMMITTER_DATE=" + s}
}

func (h *Hist) commit(msg string) bool {
	w := h.W
	w.MustGit(h.Dir, "add", "-A")
	out, code := w.GitEnv(h.Dir, h.dateEnv(), "commit", "-q", "--allow-empty", "-m", msg)
	if code != 0 {
		panic(sim.HarnessError{Msg: "commit failed: " + out})
	}
	h.log("commit %s (day -%d)", msg, h.DayOffset)
	return true
}

// WriteFile writes new content to a path (recording it if LFS-tracked).
func (h *Hist) WriteFile(p string, content []byte) {
	full := filepath.Join(h.Dir, p)
	os.MkdirAll(filepath.Dir(full), 0755)
	os.Remove(full)
	if err := os.WriteFile(full, content, 0644); err != nil {
		panic(sim.HarnessError{Msg: err.Error()})
	}
	// recorded whether or not the path is LFS-tracked right now (attribute
	// state differs between branches; the oracle only looks contents up)
	h.Contents[Oid(content)] = content
}

func (h *Hist) existingFiles() []string {
	out, _ := h.W.GitQ(h.Dir, "ls-files")
	var fs []string
	for _, l := range strings.Split(strings.TrimSpace(out), "\n") {
		if l != "" && l != ".gitattributes" {
			fs = append(fs, l)
		}
	}
	sort.Strings(fs)
	return fs
}

// Step performs one random history operation.
func (h *Hist) Step() {
	t := h.T
	w := h.W
	if h.DayOffset > 0 && t.Bool(1, 3, "advance-day") {
		h.DayOffset -= 1 + t.Choose(6, "days")
		if h.DayOffset < 0 {
			h.DayOffset = 0
		}
	}
	switch t.Choose(13, "hist-op") {
	case 0, 1, 2, 3: // write + commit
		n := 1 + t.Choose(3, "n-writes")
		for i := 0; i < n; i++ {
			p := h.paths[t.Choose(len(h.paths), "path")]
			h.WriteFile(p, h.NewContent())
			h.log("write %s", p)
			// sometimes the file is executable (tree mode 100755)
			if t.Bool(1, 6, "executable-file") {
				os.Chmod(filepath.Join(h.Dir, p), 0755)
				h.log("chmod +x %s", p)
			}
		}
		h.commit(fmt.Sprintf("change %d", h.nCommit))
	case 4: // duplicate an existing content under another path
		fs := h.existingFiles()
		if len(fs) == 0 {
			return
		}
		src := fs[t.Choose(len(fs), "dup-src")]
		b, err := os.ReadFile(filepath.Join(h.Dir, src))
		if err != nil {
			return
		}
		dst := h.paths[t.Choose(len(h.paths), "path")]
		if h.isLFSPath(dst) && len(b) > 0 {
			if _, _, isPtr := ParsePointer(b); !isPtr {
				h.WriteFile(dst, b)
				h.log("dup %s -> %s", src, dst)
				h.commit("dup")
			}
		}
	case 5: // delete
		fs := h.existingFiles()
		if len(fs) == 0 {
			return
		}
		p := fs[t.Choose(len(fs), "rm-path")]
		w.Git(h.Dir, "rm", "-q", "-f", p)
		h.log("rm %s", p)
		h.commit("rm")
	case 6: // rename
		fs := h.existingFiles()
		if len(fs) == 0 {
			return
		}
		p := fs[t.Choose(len(fs), "mv-src")]
		ext := filepath.Ext(p)
		dst := fmt.Sprintf("moved/m%d%s", h.nCommit, ext)
		os.MkdirAll(filepath.Join(h.Dir, "moved"), 0755)
		if _, code := w.Git(h.Dir, "mv", p, dst); code == 0 {
			h.log("mv %s %s", p, dst)
			h.commit("mv")
		}
	case 7: // new branch
		name := fmt.Sprintf("b%d", len(h.Branches))
		w.MustGit(h.Dir, "checkout", "-q", "-b", name)
		h.Branches = append(h.Branches, name)
		h.Cur = name
		h.log("branch %s", name)
	case 8: // switch branch
		name := h.Branches[t.Choose(len(h.Branches), "checkout-branch")]
		if _, code := w.Git(h.Dir, "checkout", "-q", name); code == 0 {
			h.Cur = name
			h.log("checkout %s", name)
		}
	case 9: // merge another branch
		if len(h.Branches) < 2 {
			return
		}
		other := h.Branches[t.Choose(len(h.Branches), "merge-branch")]
		if other == h.Cur {
			return
		}
		out, code := w.GitEnv(h.Dir, h.dateEnv(), "merge", "-q", "--no-edit", "-X", "ours", "--no-ff", other)
		if code != 0 {
			w.Git(h.Dir, "merge", "--abort")
			w.Git(h.Dir, "reset", "-q", "--hard")
			h.log("merge %s aborted: %s", other, firstLine(out))
		} else {
			h.log("merge %s", other)
		}
	case 10: // tag
		name := fmt.Sprintf("t%d", len(h.Tags))
		if h.tagLikeBranch && len(h.Branches) > 1 && t.Bool(1, 2, "tag-named-like-branch") {
			name = h.Branches[1+t.Choose(len(h.Branches)-1, "which-branch-name")]
		}
		if t.Choose(2, "annotated") == 1 {
			w.GitEnv(h.Dir, h.dateEnv(), "tag", "-a", "-m", "tag "+name, name)
		} else {
			w.Git(h.Dir, "tag", name)
		}
		h.Tags = append(h.Tags, name)
		h.log("tag %s", name)
	case 11: // change what is tracked
		if h.fixedTracking {
			p := h.paths[t.Choose(len(h.paths), "path")]
			h.WriteFile(p, h.NewContent())
			h.commit("write instead of tracking change")
			return
		}
		if t.Choose(2, "track-dir") == 0 && len(h.Tracked) > 1 {
			h.Tracked = h.Tracked[:len(h.Tracked)-1]
		} else if len(h.Tracked) < 2 {
			h.Tracked = []string{"*.bin", "*.dat"}
		}
		h.writeAttributes()
		h.log("tracked now %v", h.Tracked)
		h.commit("attributes")
	default: // orphan branch
		name := fmt.Sprintf("o%d", len(h.Branches))
		if _, code := w.Git(h.Dir, "checkout", "-q", "--orphan", name); code == 0 {
			w.Git(h.Dir, "rm", "-q", "-r", "-f", "--cached", ".")
			h.Tracked = []string{"*.bin", "*.dat"}
			h.writeAttributes()
			h.WriteFile("a.bin", h.NewContent())
			h.commit("orphan root")
			h.Branches = append(h.Branches, name)
			h.Cur = name
			h.log("orphan %s", name)
		}
	}
}

func firstLine(s string) string {
	s = strings.TrimSpace(s)
	if i := strings.IndexByte(s, '\n'); i >= 0 {
		s = s[:i]
	}
	if len(s) > 160 {
		s = s[:160]
	}
	return s
}
