package engb

import (
	"fmt"
	"os"
	"path/filepath"
	"sort"
	"strings"
	"time"

	"verif/sim"
)

// C08.git: files checked out with smudging skipped are pointers in the working
// tree; adding, stashing or committing them again must hand the very same
// blobs back to Git (never a pointer to a pointer) and add nothing to local
// storage - whatever filter flavour (filter-process / one-shot) and whatever
// pointer extension is configured.
func init() {
	Register("C08.git", runC08Git)
}

func runC08Git(c *Ctx) {
	t := c.T
	w := c.NewWorld(sim.Faults{})
	c.Res.Nontrivial = true
	remote := w.InitBare("remote.git")
	u1 := filepath.Join(w.Root, "u1")
	w.MustGit(w.Root, "init", "-q", u1)
	w.MustGit(u1, "lfs", "install", "--local", "--force")
	w.MustGit(u1, "remote", "add", "origin", remote)
	w.ConfigureClone(u1, nil)
	oneshot := t.Choose(3, "one-shot-filters") == 0
	if oneshot {
		gc := filepath.Join(w.Home, ".gitconfig")
		b, _ := os.ReadFile(gc)
		os.WriteFile(gc, []byte(strings.Replace(string(b), "\tprocess = git-lfs filter-process\n", "", 1)), 0644)
	}
	extKind := []string{"", "", "rot", "gz", "b64"}[t.Choose(5, "pointer-extension")]
	extClean := map[string]string{"rot": "tr A-Za-z N-ZA-Mn-za-m", "gz": "gzip -nc", "b64": "base64"}[extKind]
	extSmudge := map[string]string{"rot": "tr A-Za-z N-ZA-Mn-za-m", "gz": "gzip -dc", "b64": "base64 -d"}[extKind]
	// the name may contain a hyphen, the priority is any non-negative number
	extName := extKind
	if t.Bool(1, 2, "hyphenated-extension-name") {
		extName = extKind + "-fold"
	}
	extPrio := []string{"0", "5", "12"}[t.Choose(3, "extension-priority")]
	setExt := func(dir string) {
		if extKind == "" {
			return
		}
		w.MustGit(dir, "config", "lfs.extension."+extName+".clean", extClean)
		w.MustGit(dir, "config", "lfs.extension."+extName+".smudge", extSmudge)
		w.MustGit(dir, "config", "lfs.extension."+extName+".priority", extPrio)
	}
	// the extension may have been in use when the files were committed, or
	// only be configured in the clone that re-adds the pointers
	extAtCommit := extKind != "" && t.Choose(2, "extension-when-committed") == 0
	if extAtCommit {
		setExt(u1)
	}
	os.WriteFile(filepath.Join(u1, ".gitattributes"), []byte("*.bin filter=lfs diff=lfs merge=lfs -text\n"), 0644)
	n := 1 + t.Choose(4, "n-files")
	var paths []string
	for i := 0; i < n; i++ {
		data, _ := genPayload(t, i)
		if len(data) == 0 {
			data = []byte("x")
		}
		p := fmt.Sprintf("f%d.bin", i)
		if i == 1 {
			p = "dir/sub/f1.bin"
			os.MkdirAll(filepath.Join(u1, "dir/sub"), 0755)
		}
		os.WriteFile(filepath.Join(u1, p), data, 0644)
		paths = append(paths, p)
	}
	w.MustGit(u1, "add", "-A")
	// content committed at tracked paths without going through the filter
	// (added before the path was tracked, or by a tool that bypasses filters):
	// smudging it passes it through unchanged, whatever its size
	raw := map[string][]byte{}
	if t.Bool(1, 2, "raw-blobs-at-tracked-paths") {
		nr := 1 + t.Choose(3, "n-raw")
		for i := 0; i < nr; i++ {
			data, _ := genPayload(t, 20+i)
			if t.Bool(1, 3, "raw-starts-like-a-pointer") {
				data = append([]byte(PointerText(Oid([]byte("lookalike")), 12345)), data...)
			}
			if len(data) == 0 {
				data = []byte("raw\n")
			}
			if sim.RefPointer(data) != sim.PtrNo {
				data = append(data, []byte("not a pointer after all\n")...)
			}
			p := fmt.Sprintf("raw%d.bin", i)
			id, code := w.Run(u1, &RunOpts{Stdin: data, Quiet: true}, "git", "hash-object", "-w", "--stdin", "--no-filters")
			if code != 0 {
				panic(sim.HarnessError{Msg: "hash-object failed"})
			}
			w.MustGit(u1, "update-index", "--add", "--cacheinfo", "100644,"+strings.TrimSpace(id)+","+p)
			raw[p] = data
		}
	}
	w.MustGit(u1, "commit", "-q", "-m", "files")
	if _, code := w.Git(u1, "push", "-q", "origin", "main"); code != 0 {
		panic(sim.HarnessError{Msg: "set-up push failed: " + w.lastOutput()})
	}
	if len(raw) > 0 {
		// a clone with smudging enabled: the raw blobs come out as they went in
		u3 := filepath.Join(w.Root, "u3")
		if out, code := w.Git(w.Root, "clone", "-q", "-c", "lfs.url="+w.LFSURL(), remote, u3); code != 0 {
			// objects of the pointer files are only in u1's store: a failing smudge of those is not this check's business
			_ = out
		}
		var rps []string
		for p := range raw {
			rps = append(rps, p)
		}
		sort.Strings(rps)
		for _, p := range rps {
			b, err := os.ReadFile(filepath.Join(u3, p))
			if err != nil {
				continue
			}
			if string(b) != string(raw[p]) {
				c.Violation("smudge-changed-non-pointer", "checkout (one-shot filters: %v) of %s, a blob of %d bytes that is not a pointer, wrote %d bytes (sha %s instead of %s)", oneshot, p, len(raw[p]), len(b), Oid(b)[:12], Oid(raw[p])[:12])
				return
			}
			c.Probe("raw-blob-passed-through")
		}
		// leave the raw files out of the re-add part
		for _, p := range rps {
			w.Git(u1, "rm", "-q", "--cached", p)
		}
		w.Git(u1, "commit", "-q", "-m", "raw files removed")
		w.Git(u1, "push", "-q", "origin", "main")
	}
	u2 := filepath.Join(w.Root, "u2")
	if out, code := w.GitEnv(w.Root, []string{"GIT_LFS_SKIP_SMUDGE=1"}, "clone", "-q", "-c", "lfs.url="+w.LFSURL(), remote, u2); code != 0 {
		c.Violation("clone-failed", "clone with GIT_LFS_SKIP_SMUDGE=1 exited %d: %s", code, firstLine(out))
		return
	}
	setExt(u2)
	g2 := filepath.Join(u2, ".git")
	blobs := map[string]string{}
	sort.Strings(paths)
	for _, p := range paths {
		id, _ := w.GitQ(u2, "rev-parse", "HEAD:"+p)
		blobs[p] = strings.TrimSpace(id)
		b, err := os.ReadFile(filepath.Join(u2, p))
		if err != nil {
			panic(sim.HarnessError{Msg: err.Error()})
		}
		if _, _, ok := ParsePointer(b); !ok {
			c.Violation("skipped-file-not-a-pointer", "after a clone with smudging skipped, %s holds %d bytes that are not a pointer", p, len(b))
			return
		}
	}
	// make Git look at the files again
	future := time.Now().Add(time.Duration(2+t.Choose(100, "mtime-shift")) * time.Second)
	for _, p := range paths {
		os.Chtimes(filepath.Join(u2, p), future, future)
	}
	op := []string{"add", "add-renormalize", "commit-a", "stash", "hash-object"}[t.Choose(5, "re-add-op")]
	desc := fmt.Sprintf("%s (one-shot filters: %v, extension %q configured, in use when committed: %v)", op, oneshot, extKind, extAtCommit)
	same := func(rev string) bool {
		for _, p := range paths {
			id, code := w.GitQ(u2, "rev-parse", rev+p)
			if code != 0 {
				continue
			}
			if strings.TrimSpace(id) != blobs[p] {
				blob, _ := w.GitQ(u2, "cat-file", "blob", strings.TrimSpace(id))
				orig, _ := w.GitQ(u2, "cat-file", "blob", blobs[p])
				c.Violation("pointer-not-passed-through", "%s: the pointer file %s was turned into another blob: %q instead of %q", desc, p, clipStr(blob, 200), clipStr(orig, 200))
				return false
			}
		}
		return true
	}
	switch op {
	case "add":
		w.Git(u2, "add", "-A")
		same(":")
	case "add-renormalize":
		w.Git(u2, "add", "--renormalize", ".")
		same(":")
	case "commit-a":
		w.Git(u2, "commit", "-q", "-a", "-m", "again")
		same("HEAD:")
	case "stash":
		w.Git(u2, "stash", "push", "-q")
		if _, code := w.GitQ(u2, "rev-parse", "-q", "--verify", "refs/stash"); code == 0 {
			same("refs/stash:")
		}
	default:
		for _, p := range paths {
			id, code := w.GitQ(u2, "hash-object", "--path", p, filepath.Join(u2, p))
			if code == 0 && strings.TrimSpace(id) != blobs[p] {
				c.Violation("pointer-not-passed-through", "%s: git hash-object --path %s of the pointer file gives blob %s, the committed pointer is %s", desc, p, strings.TrimSpace(id)[:12], blobs[p][:12])
				break
			}
		}
	}
	if c.Res.Class == "" {
		if objs := LocalObjects(g2); len(objs) > 0 {
			c.Violation("pointer-stored-as-object", "%s: re-adding pointer files added %d object(s) to local storage", desc, len(objs))
		}
	}
	if c.Res.Class == "" {
		c.Probe("re-added-pointers-" + op)
		if extKind != "" {
			c.Probe("re-added-pointers-with-extension")
		}
	}
	for _, s := range w.Steps {
		c.T.Note(fmt.Sprintf("%v %d", s.Args, s.Exit))
	}
}
