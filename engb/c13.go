package engb

import (
	"bytes"
	"fmt"
	"os"
	"path/filepath"
	"regexp"
	"sort"
	"strings"
	"syscall"

	"verif/sim"
)

func init() {
	Register("C13", func(c *Ctx) { runC13(c) })
}

func copyTree(src, dst string) {
	filepath.Walk(src, func(p string, info os.FileInfo, err error) error {
		if err != nil {
			return nil
		}
		rel, _ := filepath.Rel(src, p)
		t := filepath.Join(dst, rel)
		if info.IsDir() {
			os.MkdirAll(t, 0755)
		} else if info.Mode().IsRegular() {
			b, _ := os.ReadFile(p)
			os.WriteFile(t, b, info.Mode().Perm())
		}
		return nil
	})
}

type fileID struct {
	ino  uint64
	hash string
	size int64
}

func snapshotLFS(gitDir string) map[string]fileID {
	out := map[string]fileID{}
	root := filepath.Join(gitDir, "lfs")
	filepath.Walk(root, func(p string, info os.FileInfo, err error) error {
		if err != nil || !info.Mode().IsRegular() {
			return nil
		}
		rel, _ := filepath.Rel(root, p)
		if strings.HasPrefix(rel, "tmp") || strings.HasPrefix(rel, "logs") || strings.HasPrefix(rel, "cache") {
			return nil
		}
		b, _ := os.ReadFile(p)
		id := fileID{hash: Oid(b), size: info.Size()}
		if st, ok := info.Sys().(*syscall.Stat_t); ok {
			id.ino = st.Ino
		}
		out[rel] = id
		return nil
	})
	return out
}

var (
	reCorrupt = regexp.MustCompile(`(?m)^objects: corruptObject: .*\(([0-9a-f]{64})\) is corrupt`)
	reOpenErr = regexp.MustCompile(`(?m)^objects: openError: .*\(([0-9a-f]{64})\) could not be checked`)
	reNonCan  = regexp.MustCompile(`(?m)^pointer: nonCanonicalPointer: Pointer for ([0-9a-f]{64}) \(blob ([0-9a-f]{40})\)`)
	reUnexp   = regexp.MustCompile(`(?m)^pointer: unexpectedGitObject: "([^"]*)" \(treeish ([0-9a-f]{40})\)`)
)

func runC13(c *Ctx) {
	t := c.T
	w := c.NewWorld(sim.Faults{})
	u1 := filepath.Join(w.Root, "u1")
	h := NewHist(w, u1)
	h.paths = []string{"a.bin", "b.bin", "dir/c.bin", "e.dat", "notes.txt"}
	h.attrPad = t.Bool(1, 3, "long-gitattributes")
	h.Init()
	w.ConfigureClone(u1, nil)
	// fetch filters: fsck skips what lfs.fetchexclude excludes and ignores
	// lfs.fetchinclude (documented: "avoid only the excluded paths")
	var skipped pathFilter
	switch t.Choose(5, "fetch-filter-config") {
	case 1:
		w.MustGit(u1, "config", "lfs.fetchinclude", "*.bin")
	case 2:
		w.MustGit(u1, "config", "lfs.fetchexclude", "dir")
		skipped.exc = []string{"dir"}
	case 3:
		w.MustGit(u1, "config", "lfs.fetchexclude", "*.dat")
		skipped.exc = []string{"*.dat"}
	case 4:
		w.MustGit(u1, "config", "lfs.fetchinclude", "dir")
		w.MustGit(u1, "config", "lfs.fetchexclude", "*.dat")
		skipped.exc = []string{"*.dat"}
	}
	g := filepath.Join(u1, ".git")
	c.Res.Nontrivial = true
	// history: writes, renames, branches — tracking attributes stay fixed
	n := 2 + t.Choose(6, "n-hist")
	for i := 0; i < n; i++ {
		switch t.Choose(6, "c13-hist") {
		case 0, 1, 2:
			p := h.paths[t.Choose(len(h.paths), "path")]
			h.WriteFile(p, h.NewContent())
			h.commit("write " + p)
		case 3:
			fs := h.existingFiles()
			if len(fs) > 0 {
				p := fs[t.Choose(len(fs), "rm")]
				w.Git(u1, "rm", "-q", "-f", p)
				h.commit("rm " + p)
			}
		case 4:
			name := fmt.Sprintf("b%d", len(h.Branches))
			w.MustGit(u1, "checkout", "-q", "-b", name)
			h.Branches = append(h.Branches, name)
		default:
			w.Git(u1, "tag", fmt.Sprintf("t%d", len(h.Tags)))
			h.Tags = append(h.Tags, fmt.Sprintf("t%d", len(h.Tags)))
		}
	}
	// two objects may share the directory of the store they live in (same
	// first four hex digits): a repair of one must not disturb the other
	if t.Bool(1, 3, "objects-sharing-a-store-directory") {
		var have []string
		for o := range LocalObjects(g) {
			have = append(have, o)
		}
		sort.Strings(have)
		if len(have) > 0 {
			target := have[t.Choose(len(have), "twin-of")]
			for k := 0; k < 400000; k++ {
				cand := []byte(fmt.Sprintf("twin content %d of %s\n", k, target[:8]))
				if o := Oid(cand); o[:4] == target[:4] && o != target {
					h.WriteFile("twin.bin", cand)
					h.commit("an object stored next to " + target[:8])
					c.Probe("objects-sharing-a-store-directory")
					break
				}
			}
		}
	}
	// nested attribute files with identical content in two directories
	nested := t.Bool(1, 3, "nested-identical-gitattributes")
	if nested {
		for _, d := range []string{"n1", "n2"} {
			os.MkdirAll(filepath.Join(u1, d), 0755)
			os.WriteFile(filepath.Join(u1, d, ".gitattributes"), []byte("*.raw filter=lfs diff=lfs merge=lfs -text\n"), 0644)
		}
		h.commit("nested attributes")
	}
	// bad pointers: tracked paths committed as raw content or as a non-canonical pointer
	badPaths := map[string]string{} // path -> kind
	badBlob := map[string]string{}  // path -> blob id
	nbad := t.Choose(3, "n-bad-pointers")
	for i := 0; i < nbad; i++ {
		p := fmt.Sprintf("bad%d.bin", i)
		if nested {
			p = fmt.Sprintf("n%d/bad%d.raw", 2-i%2, i)
		}
		var blob []byte
		kind := "raw"
		if t.Choose(2, "bad-kind") == 1 {
			kind = "noncanonical"
			target := h.NewContent()
			oid := Oid(target)
			os.MkdirAll(filepath.Dir(ObjectPath(g, oid)), 0755)
			os.WriteFile(ObjectPath(g, oid), target, 0644)
			blob = []byte(fmt.Sprintf("version https://git-lfs.github.com/spec/v1\noid sha256:%s\nsize %d\n\n", oid, len(target)))
			// forms the specification's reader accepts although they are not
			// the canonical encoding: trailing blank line, missing final
			// newline, CRLF line ends
			switch t.Choose(3, "noncanon-form") {
			case 1:
				blob = []byte(fmt.Sprintf("version https://git-lfs.github.com/spec/v1\noid sha256:%s\nsize %d", oid, len(target)))
			case 2:
				blob = []byte(fmt.Sprintf("version https://git-lfs.github.com/spec/v1\r\noid sha256:%s\r\nsize %d\r\n", oid, len(target)))
			}
		} else {
			blob = []byte(fmt.Sprintf("raw content committed to a tracked path %d\n", i))
		}
		id, code := w.Run(u1, &RunOpts{Stdin: blob, Quiet: true}, "git", "hash-object", "-w", "--stdin", "--no-filters")
		if code != 0 {
			panic(sim.HarnessError{Msg: "hash-object failed"})
		}
		id = strings.TrimSpace(id)
		w.MustGit(u1, "update-index", "--add", "--cacheinfo", "100644,"+id+","+p)
		badPaths[p] = kind
		badBlob[p] = id
		out, code := w.GitEnv(u1, h.dateEnv(), "commit", "-q", "-m", "bad pointer "+p)
		if code != 0 {
			panic(sim.HarnessError{Msg: "commit: " + out})
		}
		// keep the working tree in sync so later commits do not re-clean it
		w.Git(u1, "checkout", "-q", "--", p)
	}
	if t.Choose(3, "trailing-good-commit") != 0 {
		h.WriteFile("a.bin", h.NewContent())
		w.Git(u1, "add", "a.bin")
		w.GitEnv(u1, h.dateEnv(), "commit", "-q", "-m", "last")
	}
	// revision argument
	var revArg []string
	var revList []string
	useIndex := false
	switch t.Choose(3, "rev-arg") {
	case 0:
		useIndex = true
		revList = []string{"HEAD"}
	case 1:
		revArg = []string{"HEAD"}
		revList = []string{"HEAD"}
	default:
		cnt, _ := w.GitQ(u1, "rev-list", "--count", "HEAD")
		var k int
		fmt.Sscanf(strings.TrimSpace(cnt), "%d", &k)
		if k < 2 {
			revArg = []string{"HEAD"}
			revList = []string{"HEAD"}
		} else {
			back := 1 + t.Choose(k-1, "range-back")
			a := fmt.Sprintf("HEAD~%d", back)
			if _, code := w.GitQ(u1, "rev-parse", "-q", "--verify", a); code != 0 {
				a = "HEAD~1"
			}
			revArg = []string{a + "..HEAD"}
			revList = []string{"HEAD", "^" + a}
		}
	}
	mode := t.Choose(3, "fsck-mode") // 0 both, 1 --objects, 2 --pointers
	dry := t.Choose(3, "dry-run") == 0

	// ground truth by plumbing. Documented scope: a single committish (or
	// none) means only that commit's tree (plus the index when omitted); a
	// range A..B means every commit in the range.
	isRange := len(revList) == 2
	refd := map[string]*PtrRef{}
	if isRange {
		refd = w.ReachablePointers(u1, revList...)
	} else {
		for _, p := range w.TreePointers(u1, "HEAD") {
			refd[p.Oid] = p
		}
	}
	if useIndex {
		for _, p := range w.IndexPointers(u1) {
			if _, ok := refd[p.Oid]; !ok {
				refd[p.Oid] = p
			}
		}
	}
	var oids []string
	for o, p := range refd {
		// an object referenced only from excluded paths is outside fsck's scope
		inScope := false
		for _, path := range p.Paths {
			if skipped.allows(path) {
				inScope = true
			}
		}
		if !inScope {
			c.Probe("object-only-under-excluded-paths")
			continue
		}
		if p.Size > 0 {
			oids = append(oids, o)
		}
	}
	sort.Strings(oids)
	// bad pointers visible in the scope: paths whose bad blob is in the tree of a commit in scope
	expBadPaths := map[string]bool{}
	expNonCanBlobs := map[string]bool{}
	var scopeCommits []string
	if isRange {
		commits, _ := w.GitQ(u1, append([]string{"rev-list"}, revList...)...)
		scopeCommits = strings.Fields(commits)
	} else {
		scopeCommits = []string{"HEAD"}
	}
	for _, cm := range scopeCommits {
		tree, _ := w.GitQ(u1, "ls-tree", "-r", cm)
		for p, kind := range badPaths {
			if strings.Contains(tree, badBlob[p]+"\t"+p) {
				if kind == "raw" {
					expBadPaths[p] = true
				} else {
					expNonCanBlobs[badBlob[p]] = true
				}
			}
		}
	}
	pristine := filepath.Join(w.Root, "pristine-lfs")
	copyTree(filepath.Join(g, "lfs"), pristine)
	allLocal := LocalObjects(g)

	nsub := 1
	enumerate := len(oids) <= 6
	if enumerate {
		nsub = 1 << uint(len(oids))
	} else {
		nsub = 24
	}
	kinds := []string{"delete", "truncate", "extend", "bitflip", "replace"}
	// In some scenarios lfs/bad survives from one damage configuration to the
	// next (an object corrupted, repaired away, restored and corrupted again).
	keepBad := t.Bool(1, 2, "keep-bad-dir")
	for si := 0; si < nsub && c.Res.Class == ""; si++ {
		if keepBad {
			os.RemoveAll(filepath.Join(g, "lfs", "objects"))
			copyTree(filepath.Join(pristine, "objects"), filepath.Join(g, "lfs", "objects"))
		} else {
			os.RemoveAll(filepath.Join(g, "lfs"))
			copyTree(pristine, filepath.Join(g, "lfs"))
		}
		damaged := map[string]string{}
		for i, o := range oids {
			hit := false
			if enumerate {
				hit = si&(1<<uint(i)) != 0
			} else {
				hit = t.Bool(1, 3, "damage?")
			}
			if !hit {
				continue
			}
			k := kinds[t.Choose(len(kinds), "damage-kind")]
			p := ObjectPath(g, o)
			b, err := os.ReadFile(p)
			if err != nil {
				continue
			}
			os.Chmod(p, 0644)
			switch k {
			case "delete":
				os.Remove(p)
			case "truncate":
				os.WriteFile(p, b[:len(b)/2], 0644)
			case "extend":
				os.WriteFile(p, append(append([]byte(nil), b...), []byte("extra")...), 0644)
			case "bitflip":
				nb := append([]byte(nil), b...)
				nb[t.Choose(len(nb), "flip-pos")] ^= 1 << uint(t.Choose(8, "flip-bit"))
				os.WriteFile(p, nb, 0644)
			case "replace":
				var other []byte
				for _, oo := range oids {
					if oo != o {
						other = allLocal[oo]
						break
					}
				}
				if other == nil || bytes.Equal(other, b) {
					other = []byte("replacement bytes")
				}
				os.WriteFile(p, other, 0644)
			}
			damaged[o] = k
		}
		c.Res.Points++
		checkFsck(c, w, u1, g, revArg, mode, dry, oids, damaged, expBadPaths, expNonCanBlobs)
	}
	for _, s := range w.Steps {
		c.T.Note(fmt.Sprintf("%v %d", s.Args, s.Exit))
	}
}

func checkFsck(c *Ctx, w *World, u1, g string, revArg []string, mode int, dry bool, oids []string, damaged map[string]string, expBadPaths, expNonCanBlobs map[string]bool) {
	before := snapshotLFS(g)
	args := []string{"lfs", "fsck"}
	switch mode {
	case 1:
		args = append(args, "--objects")
	case 2:
		args = append(args, "--pointers")
	}
	if dry {
		args = append(args, "--dry-run")
	}
	args = append(args, revArg...)
	out, code := w.Git(u1, args...)
	after := snapshotLFS(g)
	wantObjBad := len(damaged) > 0 && mode != 2
	wantPtrBad := (len(expBadPaths) > 0 || len(expNonCanBlobs) > 0) && mode != 1
	desc := fmt.Sprintf("%v with damage %v", args, damaged)
	if code != 0 && code != 1 {
		c.Violation("fsck-crashed", "%s exited %d: %s", desc, code, firstLine(out))
		return
	}
	if (code == 0) != (!wantObjBad && !wantPtrBad) {
		c.Violation("fsck-wrong-verdict", "%s exited %d but damaged objects=%v bad pointers=%v/%v in the checked range; output: %s", desc, code, keysS(damaged), keysB(expBadPaths), keysB(expNonCanBlobs), clipStr(out, 300))
		return
	}
	c.Probe("verdict-checked")
	if mode != 2 {
		named := map[string]bool{}
		for _, m := range reCorrupt.FindAllStringSubmatch(out, -1) {
			named[m[1]] = true
			if k, ok := damaged[m[1]]; !ok || k == "delete" {
				c.Violation("fsck-wrong-report", "%s reports %s as corrupt; damage applied: %q", desc, m[1][:12], damaged[m[1]])
				return
			}
		}
		for _, m := range reOpenErr.FindAllStringSubmatch(out, -1) {
			named[m[1]] = true
			if damaged[m[1]] != "delete" {
				c.Violation("fsck-wrong-report", "%s reports %s as unreadable; damage applied: %q", desc, m[1][:12], damaged[m[1]])
				return
			}
		}
		for o := range damaged {
			if !named[o] && damaged[o] == "delete" {
				// git may re-run the clean filter on the (racily clean)
				// working-tree file while fsck scans the index, which puts a
				// deleted object back before it is examined: then there is
				// nothing to report
				if a, ok := after[filepath.Join("objects", o[0:2], o[2:4], o)]; ok && a.hash == o {
					c.Probe("deleted-object-restored-by-clean-filter")
					continue
				}
			}
			if !named[o] {
				c.Violation("fsck-missed-damage", "%s does not name %s (%s); output: %s", desc, o[:12], damaged[o], clipStr(out, 300))
				return
			}
		}
	}
	if mode != 1 {
		gotPaths := map[string]bool{}
		for _, m := range reUnexp.FindAllStringSubmatch(out, -1) {
			gotPaths[m[1]] = true
		}
		gotBlobs := map[string]bool{}
		for _, m := range reNonCan.FindAllStringSubmatch(out, -1) {
			gotBlobs[m[2]] = true
		}
		if !sameSet(gotPaths, expBadPaths) || !sameSet(gotBlobs, expNonCanBlobs) {
			c.Violation("fsck-wrong-pointer-report", "%s names non-pointer paths %v and non-canonical blobs %v; expected %v and %v", desc, keysB(gotPaths), keysB(gotBlobs), keysB(expBadPaths), keysB(expNonCanBlobs))
			return
		}
		if len(expBadPaths)+len(expNonCanBlobs) > 0 {
			c.Probe("bad-pointers-reported")
		}
	}
	// storage effects
	if dry || mode == 2 {
		// valid objects put back by the clean filter (see above) are not a change made by fsck
		for rel, a := range after {
			if _, had := before[rel]; !had && strings.HasPrefix(rel, "objects") && a.hash == filepath.Base(rel) {
				before[rel] = a
			}
		}
		if !sameSnap(before, after, true) {
			c.Violation("fsck-changed-storage", "%s must not change local storage, but it did: %s", desc, diffSnap(before, after))
		}
		return
	}
	for _, o := range oids {
		rel := filepath.Join("objects", o[0:2], o[2:4], o)
		k, dmg := damaged[o]
		switch {
		case !dmg:
			b, ok1 := before[rel]
			a, ok2 := after[rel]
			if ok1 && (!ok2 || a != b) {
				c.Violation("fsck-touched-intact-object", "%s: intact object %s changed (before %+v, after present=%v %+v)", desc, o[:12], b, ok2, a)
				return
			}
		case k == "delete":
		default:
			if _, still := after[rel]; still {
				c.Violation("fsck-left-corrupt-object", "%s: corrupt object %s is still in objects/", desc, o[:12])
				return
			}
			bad, ok := after[filepath.Join("bad", o)]
			if !ok {
				c.Violation("fsck-deleted-corrupt-object", "%s: corrupt object %s was not moved to lfs/bad/ (it is gone)", desc, o[:12])
				return
			}
			if bad.hash != before[rel].hash {
				c.Violation("fsck-deleted-corrupt-object", "%s: lfs/bad/%s does not hold the damaged bytes", desc, o[:12])
				return
			}
			c.Probe("moved-to-bad")
		}
	}
	// nothing else appeared or vanished under objects/
	for rel := range before {
		if strings.HasPrefix(rel, "objects") {
			o := filepath.Base(rel)
			if _, dmg := damaged[o]; dmg {
				continue
			}
			if after[rel] != before[rel] {
				c.Violation("fsck-touched-intact-object", "%s: %s changed although it was not damaged", desc, rel)
				return
			}
		}
	}
}

func keysS(m map[string]string) []string {
	var k []string
	for s := range m {
		k = append(k, s[:12]+":"+m[s])
	}
	sort.Strings(k)
	return k
}

func keysB(m map[string]bool) []string {
	var k []string
	for s := range m {
		if len(s) > 16 && !strings.Contains(s, ".") {
			s = s[:12]
		}
		k = append(k, s)
	}
	sort.Strings(k)
	return k
}

func sameSet(a, b map[string]bool) bool {
	if len(a) != len(b) {
		return false
	}
	for k := range a {
		if !b[k] {
			return false
		}
	}
	return true
}

func sameSnap(a, b map[string]fileID, inode bool) bool {
	if len(a) != len(b) {
		return false
	}
	for k, v := range a {
		w, ok := b[k]
		if !ok || v.hash != w.hash || (inode && v.ino != w.ino) {
			return false
		}
	}
	return true
}

func diffSnap(a, b map[string]fileID) string {
	var d []string
	for k, v := range a {
		if w, ok := b[k]; !ok {
			d = append(d, "removed "+k)
		} else if w != v {
			d = append(d, "changed "+k)
		}
	}
	for k := range b {
		if _, ok := a[k]; !ok {
			d = append(d, "added "+k)
		}
	}
	sort.Strings(d)
	if len(d) > 6 {
		d = d[:6]
	}
	return strings.Join(d, ", ")
}

func clipStr(s string, n int) string {
	s = strings.TrimSpace(s)
	if len(s) > n {
		return s[:n] + "…"
	}
	return s
}
