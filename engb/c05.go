package engb

import (
	"fmt"
	"os"
	"path/filepath"
	"sort"
	"strconv"
	"strings"
	"time"

	"verif/sim"
)

func init() {
	Register("C05", func(c *Ctx) { runC05(c, true, false) })
	Register("C05.plain", func(c *Ctx) { runC05(c, false, false) })
	Register("C05.file", func(c *Ctx) { runC05(c, true, true) })
}

var attrSpellings = []string{
	"filter=lfs diff=lfs merge=lfs -text",
	"filter=lfs -text",
	"filter=lfs diff=lfs merge=lfs binary",
	"filter=lfs -diff",
	"filter=lfs diff=lfs merge=lfs -text eol=lf",
	"filter=lfs diff=simdriver merge=lfs -text",
	"filter=lfs diff=lfs merge=lfs text",
}

var ambientConfigs = []string{
	"",
	"[diff]\n\tnoprefix = true\n",
	"[diff]\n\tmnemonicprefix = true\n",
	"[diff]\n\trenames = copies\n",
	"[core]\n\tquotepath = false\n",
	"[log]\n\tshowsignature = true\n",
	"[diff]\n\tsrcPrefix = x/\n\tdstPrefix = y/\n",
	"[log]\n\tdecorate = full\n\tabbrevCommit = true\n[diff]\n\talgorithm = histogram\n",
	"[diff \"simdriver\"]\n\tbinary = true\n",
	"[diff]\n\tcontext = 0\n\tinterHunkContext = 5\n",
	"[log]\n\tshowRoot = false\n",
	"[diff]\n\trelative = true\n",
	"[log]\n\tdiffMerges = dense-combined\n",
	"[log]\n\tdiffMerges = first-parent\n[diff]\n\trelative = true\n",
	"[log]\n\tshowRoot = false\n\tdate = relative\n[diff]\n\tindentHeuristic = false\n\tcolorMoved = zebra\n",
}

// diffTreeBlobs lists blob ids on one side of `git diff-tree -r --raw a b`.
// side '+' = new blobs of added/modified paths, '-' = old blobs of
// modified/deleted paths. Returns blob -> paths.
func (w *World) diffTreeBlobs(dir string, side byte, args ...string) map[string][]string {
	full := append([]string{"diff-tree", "-r", "--raw", "--no-renames", "--no-abbrev", "-z"}, args...)
	out, code := w.GitQ(dir, full...)
	res := map[string][]string{}
	if code != 0 {
		return res
	}
	parts := strings.Split(out, "\x00")
	for i := 0; i+1 < len(parts); i++ {
		meta := parts[i]
		if !strings.HasPrefix(meta, ":") {
			continue
		}
		f := strings.Fields(meta[1:])
		if len(f) < 5 {
			continue
		}
		path := parts[i+1]
		i++
		oldBlob, newBlob, status := f[2], f[3], f[4]
		zero := strings.Repeat("0", 40)
		if side == '+' && newBlob != zero && (status[0] == 'A' || status[0] == 'M') {
			res[newBlob] = append(res[newBlob], path)
		}
		if side == '-' && oldBlob != zero && (status[0] == 'M' || status[0] == 'D') {
			res[oldBlob] = append(res[oldBlob], path)
		}
	}
	return res
}

func (w *World) commitDay(dir, rev string) (time.Time, bool) {
	out, code := w.GitQ(dir, "log", "-1", "--format=%ct", rev)
	if code != 0 {
		return time.Time{}, false
	}
	n, err := strconv.ParseInt(strings.TrimSpace(out), 10, 64)
	if err != nil {
		return time.Time{}, false
	}
	return time.Unix(n, 0).UTC(), true
}

type retainSet struct {
	why map[string]string
	// exclude: lfs.fetchexclude pattern; objects referenced (in that class)
	// under a matching path are not demanded, except for stashes and
	// unpushed commits (documented behaviour)
	exclude string
}

func (r *retainSet) addPtrsFiltered(m map[string]*PtrRef, why string) {
	if r.exclude == "" {
		r.addPtrs(m, why)
		return
	}
	for _, p := range m {
		skip := false
		for _, path := range p.Paths {
			if matchSimple(r.exclude, path) {
				skip = true // conservative: any excluded path drops the demand
			}
		}
		if !skip && p.Size > 0 {
			r.add(p.Oid, why+" ("+strings.Join(clipPaths(p.Paths), ",")+")")
		}
	}
}

func (r *retainSet) add(oid, why string) {
	if _, ok := r.why[oid]; !ok {
		r.why[oid] = why
	}
}

func (r *retainSet) addPtrs(m map[string]*PtrRef, why string) {
	for _, p := range m {
		if p.Size > 0 {
			r.add(p.Oid, why+" ("+strings.Join(clipPaths(p.Paths), ",")+")")
		}
	}
}

func runC05(c *Ctx, ambient, fileRemote bool) {
	t := c.T
	w := c.NewWorld(sim.Faults{})
	c.Res.Nontrivial = true
	spelling := attrSpellings[0]
	amb := ""
	if ambient {
		spelling = attrSpellings[t.Choose(len(attrSpellings), "attr-spelling")]
		amb = ambientConfigs[t.Choose(len(ambientConfigs), "ambient-config")]
		if strings.Contains(spelling, "simdriver") && t.Choose(2, "driver-binary") == 1 {
			amb += "[diff \"simdriver\"]\n\tbinary = true\n"
		}
	}
	if amb != "" {
		f, _ := os.OpenFile(filepath.Join(w.Home, ".gitconfig"), os.O_APPEND|os.O_WRONLY, 0644)
		f.WriteString(amb)
		f.Close()
	}
	remote := w.InitBare("remote.git")
	u1 := filepath.Join(w.Root, "u1")
	g := filepath.Join(u1, ".git")
	h := NewHist(w, u1)
	// how much of the history lies inside the retention windows varies
	h.DayOffset = []int{40, 16, 9}[t.Choose(3, "history-age-days")]
	h.attrSpelling = spelling
	h.fixedTracking = true
	h.Init()
	if fileRemote {
		// the prune remote is reached through a file:// URL: what it "holds"
		// is what sits in <remote>/lfs/objects
		w.FileRemotes = map[string]bool{remote: true}
		w.MustGit(u1, "remote", "add", "origin", "file://"+remote)
		c.Probe("file-remote")
	} else {
		w.MustGit(u1, "remote", "add", "origin", remote)
	}
	refsDays := []int{7, 0, 1, 3}[t.Choose(4, "fetchrecentrefsdays")]
	commitsDays := []int{0, 1, 3, 7}[t.Choose(4, "fetchrecentcommitsdays")]
	offsetDays := []int{3, 0, 1, 7}[t.Choose(4, "pruneoffsetdays")]
	exclude := ""
	if ambient {
		exclude = []string{"", "", "*.dat", "dir"}[t.Choose(4, "fetchexclude")]
	}
	if exclude != "" {
		w.MustGit(u1, "config", "lfs.fetchexclude", exclude)
	}
	settings := map[string]string{
		"lfs.fetchrecentrefsdays":    fmt.Sprint(refsDays),
		"lfs.fetchrecentcommitsdays": fmt.Sprint(commitsDays),
		"lfs.pruneoffsetdays":        fmt.Sprint(offsetDays),
	}
	if fileRemote {
		settings["lfs.url"] = ""
	}
	w.ConfigureClone(u1, settings)
	// the remote prune checks against may be another one than the default,
	// with its own LFS server (lfs.pruneremotetocheck, remote.<name>.lfsurl)
	pruneRemote, pfr := "origin", w.Front
	if ambient && !fileRemote && t.Bool(1, 5, "prune-remote-is-a-second-remote") {
		remote2 := w.InitBare("remote2.git")
		w.MustGit(u1, "remote", "add", "second", remote2)
		pfr = w.AddServer()
		w.RemoteSrv = map[string]*Front{remote2: pfr}
		w.MustGit(u1, "config", "--unset", "lfs.url")
		w.MustGit(u1, "config", "remote.origin.lfsurl", w.LFSURL())
		w.MustGit(u1, "config", "remote.second.lfsurl", pfr.Base+pfr.Srv.APIPrefix)
		w.MustGit(u1, "config", "lfs.pruneremotetocheck", "second")
		pruneRemote = "second"
		c.Probe("prune-remote-is-a-second-remote")
	}
	// history with partial pushes
	n := 5 + t.Choose(12, "n-steps")
	for i := 0; i < n; i++ {
		if t.Choose(4, "step") == 0 {
			var args []string
			switch t.Choose(3, "push-kind") {
			case 0:
				args = []string{"push", "-q", "origin", h.Cur}
			case 1:
				args = []string{"push", "-q", "origin", "--all"}
			default:
				args = []string{"push", "-q", "--force", "origin", h.Cur}
			}
			w.Git(u1, args...)
			h.log("%s", strings.Join(args, " "))
			if pruneRemote != "origin" && t.Bool(1, 2, "push-to-prune-remote-too") {
				for k := range args {
					if args[k] == "origin" {
						args[k] = pruneRemote
					}
				}
				w.Git(u1, args...)
				h.log("%s", strings.Join(args, " "))
			}
		} else {
			h.Step()
		}
	}
	// directed episodes that put objects exactly where only one retention
	// rule protects them (everything involved is pushed)
	if t.Bool(1, 5, "recent-tag-the-branch-moved-past") {
		save := h.DayOffset
		h.DayOffset = 2
		h.WriteFile("tagged.bin", h.NewContent())
		h.commit("release content")
		name := fmt.Sprintf("rel-%d", len(h.Tags))
		w.Git(u1, "tag", name)
		h.Tags = append(h.Tags, name)
		h.DayOffset = 1
		h.WriteFile("tagged.bin", h.NewContent())
		h.commit("after the release")
		w.Git(u1, "push", "-q", pruneRemote, "--all")
		w.Git(u1, "push", "-q", pruneRemote, "--tags")
		h.log("recent lightweight tag %s on a commit %s has moved past", name, h.Cur)
		h.DayOffset = save
		if h.DayOffset > 1 {
			h.DayOffset = 1
		}
		c.Probe("recent-tag-the-branch-moved-past")
	}
	if commitsDays > 0 && t.Bool(1, 4, "older-recent-branch-with-its-own-window") {
		win := commitsDays + offsetDays
		tipAge := 2
		replAge := tipAge + win - 1
		cur := h.Cur
		name := fmt.Sprintf("side%d", len(h.Branches))
		if _, code := w.Git(u1, "checkout", "-q", "-b", name); code == 0 {
			h.Branches = append(h.Branches, name)
			save := h.DayOffset
			h.DayOffset = replAge + 1
			h.WriteFile("windowed.bin", h.NewContent())
			h.commit("first version")
			h.DayOffset = replAge
			h.WriteFile("windowed.bin", h.NewContent())
			h.commit("replaced inside this branch's own window")
			h.DayOffset = tipAge
			h.WriteFile("notes.txt", []byte(fmt.Sprintf("tip of %s\n", name)))
			h.commit("tip")
			w.Git(u1, "checkout", "-q", cur)
			h.DayOffset = 0
			h.WriteFile("notes.txt", []byte("HEAD is younger than that tip\n"))
			h.commit("today")
			w.Git(u1, "push", "-q", pruneRemote, "--all")
			h.log("branch %s: tip %d days old, object replaced %d days ago (window %d days)", name, tipAge, replAge, win)
			_ = save
			c.Probe("older-recent-branch-with-its-own-window")
		}
	}
	// a merge whose resolution introduces content neither parent has, later
	// replaced: the merge commit (unpushed) is the only thing referencing it
	if len(h.Branches) > 1 && t.Bool(1, 4, "merge-resolution-introduces-object") {
		other := h.Branches[0]
		if other == h.Cur {
			other = h.Branches[1]
		}
		if _, code := w.GitEnv(u1, h.dateEnv(), "merge", "-q", "--no-ff", "--no-commit", "-X", "ours", other); code == 0 {
			h.WriteFile("merged.bin", h.NewContent())
			w.Git(u1, "add", "merged.bin")
			if _, code := w.GitEnv(u1, h.dateEnv(), "commit", "-q", "--no-edit"); code == 0 {
				h.log("merge %s with a resolution of its own", other)
				c.Probe("merge-resolution-introduces-object")
				if t.Bool(1, 2, "replace-merge-content") {
					h.WriteFile("merged.bin", h.NewContent())
					h.commit("replace merged.bin")
				}
			} else {
				w.Git(u1, "merge", "--abort")
			}
		} else {
			w.Git(u1, "merge", "--abort")
			w.Git(u1, "reset", "-q", "--hard")
		}
	}
	// extra state
	var worktrees []string
	worktrees = append(worktrees, u1)
	if t.Bool(1, 3, "extra-worktree") && len(h.Branches) > 1 {
		var other string
		for _, b := range h.Branches {
			if b != h.Cur {
				other = b
			}
		}
		wt := filepath.Join(w.Root, "wt2")
		if _, code := w.Git(u1, "worktree", "add", "-q", wt, other); code == 0 {
			worktrees = append(worktrees, wt)
			if t.Bool(1, 2, "wt-staged") {
				b := h.NewContent()
				os.WriteFile(filepath.Join(wt, "wt-staged.bin"), b, 0644)
				w.Git(wt, "add", "wt-staged.bin")
			}
		}
	}
	// another worktree on a detached HEAD with commits of its own: reachable
	// from no branch or tag, pushed nowhere
	if fileRemote && t.Bool(1, 3, "detached-worktree-with-commits") {
		wt := filepath.Join(w.Root, "wt3")
		if _, code := w.Git(u1, "worktree", "add", "-q", "--detach", wt, "HEAD"); code == 0 {
			worktrees = append(worktrees, wt)
			for k := 0; k < 2; k++ {
				os.WriteFile(filepath.Join(wt, "wt-detached.bin"), h.NewContent(), 0644)
				w.Git(wt, "add", "wt-detached.bin")
				w.GitEnv(wt, h.dateEnv(), "commit", "-q", "-m", fmt.Sprintf("on the detached HEAD of another worktree %d", k))
			}
			c.Probe("detached-worktree-with-commits")
		}
	}
	nst := t.Choose(3, "n-stashes")
	for i := 0; i < nst; i++ {
		fs := h.existingFiles()
		var lfsFiles []string
		for _, f := range fs {
			if strings.HasSuffix(f, ".bin") || strings.HasSuffix(f, ".dat") {
				lfsFiles = append(lfsFiles, f)
			}
		}
		kind := t.Choose(3, "stash-kind")
		if len(lfsFiles) > 0 {
			p := lfsFiles[t.Choose(len(lfsFiles), "stash-path")]
			h.WriteFile(p, h.NewContent())
		}
		switch kind {
		case 0:
			if len(lfsFiles) > 0 {
				w.GitEnv(u1, h.dateEnv(), "stash", "push", "-q")
			}
		case 1:
			h.WriteFile(fmt.Sprintf("untracked%d.bin", i), h.NewContent())
			w.GitEnv(u1, h.dateEnv(), "stash", "push", "-q", "-u")
		default:
			if len(lfsFiles) > 0 {
				w.Git(u1, "add", "-A")
				h.WriteFile(lfsFiles[0], h.NewContent())
				w.GitEnv(u1, h.dateEnv(), "stash", "push", "-q", "--keep-index")
				w.Git(u1, "reset", "-q", "--hard")
			}
		}
	}
	if t.Bool(1, 3, "staged-uncommitted") {
		stagedPath := []string{"staged.bin", "dir/staged.bin", "staged.dat"}[t.Choose(3, "staged-path")]
		os.MkdirAll(filepath.Join(u1, "dir"), 0755)
		h.WriteFile(stagedPath, h.NewContent())
		w.Git(u1, "add", stagedPath)
		// the staged version may differ from what is in the working tree now
		switch t.Choose(3, "after-staging") {
		case 1:
			h.WriteFile(stagedPath, h.NewContent())
		case 2:
			os.Remove(filepath.Join(u1, stagedPath))
		}
	}
	if t.Bool(1, 5, "detached-head") {
		if _, code := w.GitQ(u1, "rev-parse", "-q", "--verify", "HEAD~1"); code == 0 {
			w.Git(u1, "stash", "push", "-q")
			w.Git(u1, "checkout", "-q", "--detach", "HEAD~1")
			// work committed on the detached HEAD is reachable from nothing else
			if t.Bool(1, 2, "commits-on-detached-head") {
				for k := 0; k < 2; k++ {
					h.WriteFile("detached.bin", h.NewContent())
					w.Git(u1, "add", "detached.bin")
					w.GitEnv(u1, h.dateEnv(), "commit", "-q", "-m", fmt.Sprintf("on detached HEAD %d", k))
				}
				c.Probe("commits-on-detached-head")
			}
		}
	}
	// flags
	force := t.Bool(1, 5, "--force")
	recent := t.Bool(1, 5, "--recent")
	dry := t.Bool(1, 5, "--dry-run")
	verify := t.Bool(1, 3, "--verify-remote")
	verifyUnreachable := verify && t.Bool(1, 3, "--verify-unreachable")
	whenContinue := verify && t.Bool(1, 2, "when-unverified-continue")
	args := []string{"lfs", "prune"}
	if force {
		args = append(args, "--force")
	}
	if recent {
		args = append(args, "--recent")
	}
	if dry {
		args = append(args, "--dry-run")
	}
	if verify {
		args = append(args, "--verify-remote")
		if verifyUnreachable {
			args = append(args, "--verify-unreachable")
		}
		if whenContinue {
			args = append(args, "--when-unverified=continue")
		}
	}
	// objects removed from the server behind the client's back
	serverLacks := map[string]bool{}
	if verify && fileRemote {
		for _, o := range w.StoreOids(remote) {
			if t.Bool(1, 4, "server-loses") {
				w.StoreDelete(remote, o)
			}
		}
		have := map[string]bool{}
		for _, o := range w.StoreOids(remote) {
			have[o] = true
		}
		for o := range LocalObjects(g) {
			if !have[o] {
				serverLacks[o] = true
			}
		}
	} else if verify {
		var so []string
		// (everything that is on neither server is "lacking" too: with two
		// servers the prune remote's may never have received an object)
		for o := range w.Srv.Store {
			so = append(so, o)
		}
		sort.Strings(so)
		for _, o := range so {
			if _, has := pfr.Srv.Store[o]; !has {
				serverLacks[o] = true
				continue
			}
			if t.Bool(1, 4, "server-loses") {
				delete(pfr.Srv.Store, o)
				serverLacks[o] = true
			}
		}
	}

	// ---- must-retain set (under-approximation of the statement), by plumbing ----
	ret := &retainSet{why: map[string]string{}, exclude: exclude}
	pushedIdx := w.ReachablePointers(u1, "--remotes="+pruneRemote)
	if !force {
		for _, wt := range worktrees {
			ret.addPtrsFiltered(treeByOid(w.TreePointers(wt, "HEAD")), "HEAD of worktree "+filepath.Base(wt))
			// what is staged and exists nowhere on the prune remote is unpushed
			// work like any other: lfs.fetchexclude does not make it prunable
			idxPushed, idxOnlyLocal := map[string]*PtrRef{}, map[string]*PtrRef{}
			for oid, pr := range treeByOid(w.IndexPointers(wt)) {
				if _, pushed := pushedIdx[oid]; pushed {
					idxPushed[oid] = pr
				} else {
					idxOnlyLocal[oid] = pr
				}
			}
			ret.addPtrsFiltered(idxPushed, "index of worktree "+filepath.Base(wt))
			ret.addPtrs(idxOnlyLocal, "index of worktree "+filepath.Base(wt)+" (staged, never pushed)")
		}
	}
	// stashes
	stashes, _ := w.GitQ(u1, "log", "-g", "--format=%H", "refs/stash", "--")
	for _, s := range strings.Fields(stashes) {
		if len(s) != 40 {
			continue
		}
		ret.addPtrs(w.blobPointers(u1, w.diffTreeBlobs(u1, '+', s+"^1", s)), "stash "+s[:8]+" (working tree)")
		ret.addPtrs(w.blobPointers(u1, w.diffTreeBlobs(u1, '+', s+"^1", s+"^2")), "stash "+s[:8]+" (index)")
		if _, code := w.GitQ(u1, "rev-parse", "-q", "--verify", s+"^3"); code == 0 {
			ret.addPtrs(w.blobPointers(u1, w.diffTreeBlobs(u1, '+', "--root", s+"^3")), "stash "+s[:8]+" (untracked)")
		}
	}
	// unpushed: every pointer in the tree of a commit that is reachable from
	// HEAD, a local branch or a tag but from no remote-tracking ref of the
	// prune remote, unless something those refs reach references the object too
	// (an unpushed rename or re-add of pushed content is pushed). Trees rather
	// than diffs: what a merge's own resolution introduces counts as well.
	pushedOids := w.ReachablePointers(u1, "--remotes="+pruneRemote)
	starts := []string{"rev-list", "HEAD", "--branches", "--tags"}
	for _, wt := range worktrees[1:] {
		// the HEAD of every other worktree is a starting point like this one's
		if sha, code := w.GitQ(wt, "rev-parse", "-q", "--verify", "HEAD"); code == 0 {
			starts = append(starts, strings.TrimSpace(sha))
		}
	}
	unpushed, _ := w.GitQ(u1, append(starts, "--not", "--remotes="+pruneRemote)...)
	for _, cm := range strings.Fields(unpushed) {
		if len(cm) != 40 {
			continue
		}
		intro := map[string]*PtrRef{}
		for _, pr := range w.TreePointers(u1, cm) {
			if _, pushed := pushedOids[pr.Oid]; !pushed {
				intro[pr.Oid] = pr
			}
		}
		ret.addPtrs(intro, "unpushed commit "+cm[:8])
	}
	// recent refs and commits
	if !force && !recent {
		day := 24 * time.Hour
		recentTips := []string{"HEAD"}
		if refsDays > 0 {
			// branches, tags (lightweight and annotated) and the prune remote's
			// tracking refs are all refs; annotated tags count by the commit they name
			out, _ := w.GitQ(u1, "for-each-ref", "--format=%(refname) %(objectname) %(*objectname)", "refs/heads", "refs/tags", "refs/remotes/"+pruneRemote)
			for _, l := range strings.Split(strings.TrimSpace(out), "\n") {
				f := strings.Fields(l)
				if len(f) == 3 {
					f = []string{f[0], f[2]}
				}
				if len(f) != 2 || strings.HasSuffix(f[0], "/HEAD") {
					continue
				}
				d, ok := w.commitDay(u1, f[1])
				if !ok {
					continue
				}
				window := time.Duration(refsDays+offsetDays) * day
				// well inside the window: at least 3 hours younger than the boundary
				if w.Now.Sub(d) < window-3*time.Hour {
					ret.addPtrsFiltered(treeByOid(w.TreePointers(u1, f[1])), "recent ref "+f[0])
					recentTips = append(recentTips, f[1])
				}
			}
		}
		if commitsDays > 0 {
			for _, tip := range recentTips {
				d, ok := w.commitDay(u1, tip)
				if !ok {
					continue
				}
				since := d.Add(-time.Duration(commitsDays+offsetDays)*day + 3*time.Hour)
				out, _ := w.GitQ(u1, "rev-list", "--no-merges", "--since="+strconv.FormatInt(since.Unix(), 10), tip)
				for _, cm := range strings.Fields(out) {
					if _, code := w.GitQ(u1, "rev-parse", "-q", "--verify", cm+"^"); code != 0 {
						continue
					}
					ret.addPtrsFiltered(w.blobPointers(u1, w.diffTreeBlobs(u1, '-', cm+"^", cm)), "previous version replaced by recent commit "+cm[:8])
				}
			}
		}
	}
	// verify-remote: reachable objects the remote does not hold
	if verify {
		for oid, p := range w.ReachablePointers(u1, "--all") {
			if !serverLacks[oid] || p.Size == 0 {
				continue
			}
			// paths under lfs.fetchexclude are documented as prunable; whether
			// --verify-remote should still protect them is not demanded
			excluded := false
			for _, path := range p.Paths {
				if exclude != "" && matchSimple(exclude, path) {
					excluded = true
				}
			}
			if !excluded {
				ret.add(oid, "reachable and missing on the remote (--verify-remote)")
			}
		}
	}

	before := LocalObjects(g)
	runDir := u1
	if st, err := os.Stat(filepath.Join(u1, "dir")); err == nil && st.IsDir() && t.Bool(1, 4, "prune-from-subdirectory") {
		runDir = filepath.Join(u1, "dir")
		c.Probe("prune-from-subdirectory")
	}
	out, code := w.Git(runDir, args...)
	after := LocalObjects(g)
	c.Res.SimDays = 40
	desc := fmt.Sprintf("%v (attributes %q, recentrefsdays=%d recentcommitsdays=%d pruneoffsetdays=%d fetchexclude=%q, user configuration %q, run in %s)", args, spelling, refsDays, commitsDays, offsetDays, exclude, strings.Join(strings.Fields(amb), " "), strings.TrimPrefix(runDir, w.Root+"/"))
	if code != 0 {
		c.Probe("prune-exit-nonzero")
	} else {
		c.Probe("prune-exit-0")
	}
	if dry {
		if len(after) != len(before) {
			c.Violation("dry-run-deleted", "%s removed %d objects", desc, len(before)-len(after))
			return
		}
		c.Probe("dry-run-inert")
	}
	var lost []string
	for oid := range before {
		if _, ok := after[oid]; !ok {
			lost = append(lost, oid)
		}
	}
	sort.Strings(lost)
	if len(lost) > 0 {
		c.Probe("pruned-something")
	}
	for _, oid := range lost {
		if why, must := ret.why[oid]; must {
			c.Violation("pruned-needed-object", "%s deleted %s which is still needed: %s; output: %s", desc, oid[:12], why, clipStr(out, 200))
			return
		}
	}
	kept := 0
	for oid := range ret.why {
		if _, ok := before[oid]; ok {
			kept++
		}
	}
	if kept > 0 {
		c.Probe("retained-checked")
	}
	for _, s := range w.Steps {
		c.T.Note(fmt.Sprintf("%v %d", s.Args, s.Exit))
	}
	c.T.Note(strings.Join(lost, ","))
}

// treeByOid regroups a path->pointer map by oid with all its paths.
func treeByOid(m map[string]*PtrRef) map[string]*PtrRef {
	out := map[string]*PtrRef{}
	for path, p := range m {
		q := out[p.Oid]
		if q == nil {
			q = &PtrRef{Oid: p.Oid, Size: p.Size, Blob: p.Blob}
			out[p.Oid] = q
		}
		q.Paths = append(q.Paths, path)
	}
	return out
}
