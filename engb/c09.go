package engb

import (
	"encoding/json"
	"fmt"
	"os"
	"path/filepath"
	"sort"
	"strings"

	"verif/sim"
)

func init() {
	Register("C09", func(c *Ctx) { runC09(c) })
}

// copyTreeFull copies a directory tree with modes, symlinks and mtimes.
func copyTreeFull(src, dst string) {
	filepath.Walk(src, func(p string, info os.FileInfo, err error) error {
		if err != nil {
			return nil
		}
		rel, _ := filepath.Rel(src, p)
		t := filepath.Join(dst, rel)
		switch {
		case info.IsDir():
			os.MkdirAll(t, info.Mode().Perm()|0700)
		case info.Mode()&os.ModeSymlink != 0:
			if l, err := os.Readlink(p); err == nil {
				os.Symlink(l, t)
			}
		case info.Mode().IsRegular():
			b, _ := os.ReadFile(p)
			os.WriteFile(t, b, info.Mode().Perm())
			os.Chmod(t, info.Mode().Perm())
			os.Chtimes(t, info.ModTime(), info.ModTime())
		}
		return nil
	})
}

// lfsFiles lists every regular file under <gitDir>/lfs: rel path -> sha256.
func lfsFiles(gitDir string) map[string]string {
	out := map[string]string{}
	root := filepath.Join(gitDir, "lfs")
	filepath.Walk(root, func(p string, info os.FileInfo, err error) error {
		if err != nil || !info.Mode().IsRegular() {
			return nil
		}
		rel, _ := filepath.Rel(root, p)
		b, _ := os.ReadFile(p)
		out[rel] = Oid(b)
		return nil
	})
	return out
}

func objectsOf(files map[string]string) map[string]string {
	out := map[string]string{}
	for rel, h := range files {
		if strings.HasPrefix(rel, "objects"+string(filepath.Separator)) {
			out[filepath.Base(rel)] = h
		}
	}
	return out
}

// quarantinedOf: what the repair moved aside (lfs/bad): name -> sha256.
func quarantinedOf(files map[string]string) map[string]string {
	out := map[string]string{}
	for rel, h := range files {
		if strings.HasPrefix(rel, "bad"+string(filepath.Separator)) {
			out[filepath.Base(rel)] = h
		}
	}
	return out
}

func sameMap(a, b map[string]string) bool {
	if len(a) != len(b) {
		return false
	}
	for k, v := range a {
		if b[k] != v {
			return false
		}
	}
	return true
}

func diffMap(a, b map[string]string) string {
	var d []string
	for k := range a {
		if _, ok := b[k]; !ok {
			d = append(d, "missing "+k[:12])
		} else if a[k] != b[k] {
			d = append(d, "differs "+k[:12])
		}
	}
	for k := range b {
		if _, ok := a[k]; !ok {
			d = append(d, "extra "+k[:12])
		}
	}
	sort.Strings(d)
	if len(d) > 5 {
		d = d[:5]
	}
	return strings.Join(d, ", ")
}

type crashScenario struct {
	kind   string
	dir    string   // where the command runs
	gitDir string   // whose local storage is judged
	args   []string // git arguments
	bad    bool     // lfs/bad is a legal place for leftovers
	// mayFail: the uninterrupted command may legitimately exit non-zero
	// (a scripted agent delivers corrupt objects)
	mayFail bool
}

func runC09(c *Ctx) {
	t := c.T
	w := c.NewWorld(sim.Faults{})
	c.Res.Nontrivial = true
	remote := w.InitBare("remote.git")
	u1 := filepath.Join(w.Root, "u1")
	h := NewHist(w, u1)
	h.fixedTracking = true
	h.Init()
	w.MustGit(u1, "remote", "add", "origin", remote)
	w.ConfigureClone(u1, map[string]string{"lfs.concurrenttransfers": "1"})
	kind := []string{"add", "add-oneshot", "fetch", "pull", "checkout", "fsck", "prune", "migrate", "reference", "fetch-custom", "alternates", "fetch-ssh"}[t.Choose(12, "crash-scenario")]
	if k := os.Getenv("VERIF_C09_KIND"); k != "" {
		kind = k // debugging aid: force one scenario kind
	}
	var sc crashScenario
	sc.kind = kind
	bigContent := func() []byte {
		b := h.NewContent()
		if t.Bool(1, 3, "big-object") {
			for len(b) < 70000 {
				b = append(b, b...)
			}
			b = append(b[:70000], []byte(fmt.Sprint(h.nContent))...)
		}
		return b
	}
	switch kind {
	case "add", "add-oneshot":
		n := 1 + t.Choose(4, "n-files")
		for i := 0; i < n; i++ {
			h.WriteFile(fmt.Sprintf("new%d.bin", i), bigContent())
		}
		if kind == "add-oneshot" {
			// one-shot clean filter: drop the long-running process from the user's configuration
			gc := filepath.Join(w.Home, ".gitconfig")
			b, _ := os.ReadFile(gc)
			os.WriteFile(gc, []byte(strings.Replace(string(b), "\tprocess = git-lfs filter-process\n", "", 1)), 0644)
		}
		sc.dir, sc.gitDir, sc.args = u1, filepath.Join(u1, ".git"), []string{"add", "-A"}
	case "reference", "fetch-custom", "alternates", "fetch-ssh":
		n := 1 + t.Choose(3, "n-files")
		for i := 0; i < n; i++ {
			h.WriteFile(fmt.Sprintf("f%d.bin", i), bigContent())
		}
		h.commit("files")
		if _, code := w.Git(u1, "push", "-q", "origin", "--all"); code != 0 {
			panic(sim.HarnessError{Msg: "push failed: " + w.lastOutput()})
		}
		u2 := filepath.Join(w.Root, "u2")
		cloneArgs := []string{"clone", "-q", "-c", "lfs.url=" + w.LFSURL(), "-c", "lfs.concurrenttransfers=1", "-c", "lfs.transfer.maxretries=1", "-c", "lfs.transfer.maxretrydelay=0"}
		var env []string
		if kind == "reference" {
			// a file:// remote on ANOTHER file system: the standalone file
			// transfer agent cannot hard-link and copies objects from the
			// remote's store into local storage
			refRoot, err := os.MkdirTemp(os.TempDir(), "verif-fileremote-")
			if err != nil {
				panic(sim.HarnessError{Msg: err.Error()})
			}
			defer os.RemoveAll(refRoot)
			fremote := filepath.Join(refRoot, "remote.git")
			w.MustGit(w.Root, "init", "-q", "--bare", fremote)
			w.MustGit(u1, "config", "--unset", "lfs.url")
			w.MustGit(u1, "remote", "add", "fileremote", "file://"+fremote)
			if _, code := w.Git(u1, "push", "-q", "fileremote", "--all"); code != 0 {
				panic(sim.HarnessError{Msg: "push to file remote failed: " + w.lastOutput()})
			}
			remote = "file://" + fremote
			cloneArgs = []string{"clone", "-q", "-c", "lfs.concurrenttransfers=1", "-c", "lfs.transfer.maxretries=1", "-c", "lfs.transfer.maxretrydelay=0"}
		} else if kind == "alternates" {
			// git clone --reference to a repository on ANOTHER file system:
			// objects are copied (hard links fail) out of the reference's
			// LFS store into local storage by fetch
			refRoot, err := os.MkdirTemp(os.TempDir(), "verif-ref-")
			if err != nil {
				panic(sim.HarnessError{Msg: err.Error()})
			}
			defer os.RemoveAll(refRoot)
			ref := filepath.Join(refRoot, "ref")
			copyTreeFull(u1, ref)
			w.Srv.Store = map[string][]byte{} // the server cannot help
			cloneArgs = append(cloneArgs, "--no-checkout", "--reference", ref)
		} else if kind == "fetch-ssh" {
			// the pure SSH transfer adapter against the scripted peer
			src := filepath.Join(w.Root, "ssh-store")
			os.MkdirAll(src, 0755)
			get := map[string][]string{}
			for oid, data := range h.Contents {
				os.WriteFile(filepath.Join(src, oid), data, 0644)
				get[oid] = []string{[]string{"ok", "ok", "ok", "bitflip", "truncated", "die-midstream"}[t.Choose(6, "ssh-peer-behaviour")]}
				if get[oid][0] != "ok" {
					sc.mayFail = true
				}
			}
			env, _ := sshSetup(w, map[string]interface{}{"source": src, "pure": true, "get": get, "chunk": []int{32768, 1000, 65516}[t.Choose(3, "packet-size")]})
			w.ExtraEnv = append(w.ExtraEnv, env...)
			cloneArgs = []string{"clone", "-q", "-c", "lfs.url=ssh://git@simhost/repo.git", "-c", "lfs.ssh.automultiplex=false", "-c", "lfs.concurrenttransfers=1", "-c", "lfs.transfer.maxretries=1", "-c", "lfs.transfer.maxretrydelay=0"}
		} else {
			src := filepath.Join(w.Root, "agent-src")
			tmp := filepath.Join(w.Root, "agent-tmp")
			os.MkdirAll(src, 0755)
			os.MkdirAll(tmp, 0755)
			behave := map[string]string{}
			for oid, data := range h.Contents {
				os.WriteFile(filepath.Join(src, oid), data, 0644)
				behave[oid] = []string{"ok", "ok", "bitflip", "truncated"}[t.Choose(4, "agent-behaviour")]
			}
			script, _ := json.Marshal(map[string]interface{}{"source": src, "tmp": tmp, "behave": behave})
			scriptFile := filepath.Join(w.Root, "agent.json")
			os.WriteFile(scriptFile, script, 0644)
			w.ExtraEnv = append(w.ExtraEnv, "VERIF_AGENT_SCRIPT="+scriptFile)
			cloneArgs = append(cloneArgs, "-c", "lfs.customtransfer.sim.path="+AgentBinary, "-c", "lfs.customtransfer.sim.args=__lfs_agent", "-c", "lfs.customtransfer.sim.concurrent=false", "-c", "lfs.standalonetransferagent=sim")
			sc.mayFail = true
		}
		cloneArgs = append(cloneArgs, remote, u2)
		if _, code := w.GitEnv(w.Root, append(env, "GIT_LFS_SKIP_SMUDGE=1"), cloneArgs...); code != 0 {
			panic(sim.HarnessError{Msg: "clone failed: " + w.lastOutput()})
		}
		sc.dir, sc.gitDir = u2, filepath.Join(u2, ".git")
		sc.args = []string{"lfs", "fetch", "origin"}

	case "fetch", "pull", "checkout":
		n := 1 + t.Choose(4, "n-files")
		for i := 0; i < n; i++ {
			h.WriteFile(fmt.Sprintf("f%d.bin", i), bigContent())
		}
		h.commit("files")
		if kind == "checkout" {
			w.MustGit(u1, "checkout", "-q", "-b", "other")
			for i := 0; i < n; i++ {
				h.WriteFile(fmt.Sprintf("f%d.bin", i), bigContent())
			}
			h.commit("other files")
		}
		if _, code := w.Git(u1, "push", "-q", "origin", "--all"); code != 0 {
			panic(sim.HarnessError{Msg: "push failed: " + w.lastOutput()})
		}
		u2 := filepath.Join(w.Root, "u2")
		if _, code := w.GitEnv(w.Root, []string{"GIT_LFS_SKIP_SMUDGE=1"}, "clone", "-q", "-b", "main", "-c", "lfs.url="+w.LFSURL(), "-c", "lfs.concurrenttransfers=1", "-c", "lfs.transfer.maxretries=1", "-c", "lfs.transfer.maxretrydelay=0", remote, u2); code != 0 {
			panic(sim.HarnessError{Msg: "clone failed: " + w.lastOutput()})
		}
		// a stale partial download from an earlier attempt
		if t.Bool(1, 3, "stale-part") {
			ptrs := w.TreePointers(u2, "HEAD")
			for _, p := range ptrs {
				if data, ok := h.Contents[p.Oid]; ok && len(data) > 4 {
					inc := filepath.Join(u2, ".git", "lfs", "incomplete")
					os.MkdirAll(inc, 0755)
					os.WriteFile(filepath.Join(inc, p.Oid+".part"), data[:len(data)/2], 0644)
					// the server may not honour the Range request of the resumed download
					switch t.Choose(3, "server-range-support") {
					case 1:
						w.Srv.F.RangeIgnore = 1000
						c.Probe("resume-against-server-ignoring-range")
					case 2:
						w.Srv.F.Range416 = 1000
						c.Probe("resume-against-server-answering-416")
					}
					break
				}
			}
		}
		sc.dir, sc.gitDir = u2, filepath.Join(u2, ".git")
		switch kind {
		case "fetch":
			sc.args = []string{"lfs", "fetch", "origin"}
		case "pull":
			sc.args = []string{"lfs", "pull", "origin"}
		default:
			// -f: after a killed filter git itself leaves a half-updated tree;
			// the re-run must be allowed to overwrite it
			sc.args = []string{"checkout", "-q", "-f", "-B", "other", "origin/other"}
		}
	case "fsck":
		n := 2 + t.Choose(3, "n-files")
		for i := 0; i < n; i++ {
			h.WriteFile(fmt.Sprintf("f%d.bin", i), bigContent())
		}
		h.commit("files")
		g := filepath.Join(u1, ".git")
		objs := LocalObjects(g)
		var oids []string
		for o := range objs {
			oids = append(oids, o)
		}
		sort.Strings(oids)
		damaged := 0
		for _, o := range oids {
			if damaged == 0 || t.Bool(1, 2, "damage") {
				p := ObjectPath(g, o)
				os.Chmod(p, 0644)
				os.WriteFile(p, append([]byte("corrupted "), objs[o][:len(objs[o])/2]...), 0644)
				damaged++
			}
		}
		// keep git from re-creating objects through the clean filter
		w.Git(u1, "status")
		sc.dir, sc.gitDir, sc.args, sc.bad = u1, g, []string{"lfs", "fsck"}, true
	case "prune":
		for r := 0; r < 3; r++ {
			for i := 0; i < 2; i++ {
				h.WriteFile(fmt.Sprintf("f%d.bin", i), bigContent())
			}
			h.commit(fmt.Sprintf("round %d", r))
		}
		if _, code := w.Git(u1, "push", "-q", "origin", "main"); code != 0 {
			panic(sim.HarnessError{Msg: "push failed: " + w.lastOutput()})
		}
		w.MustGit(u1, "config", "lfs.fetchrecentrefsdays", "0")
		w.MustGit(u1, "config", "lfs.fetchrecentcommitsdays", "0")
		sc.dir, sc.gitDir, sc.args = u1, filepath.Join(u1, ".git"), []string{"lfs", "prune"}
	default: // migrate import of plain files
		os.WriteFile(filepath.Join(u1, ".gitattributes"), []byte(""), 0644)
		n := 1 + t.Choose(3, "n-files")
		for r := 0; r < 2; r++ {
			for i := 0; i < n; i++ {
				h.WriteFile(fmt.Sprintf("raw%d.big", i), bigContent())
			}
			h.commit(fmt.Sprintf("raw %d", r))
		}
		sc.dir, sc.gitDir, sc.args = u1, filepath.Join(u1, ".git"), []string{"lfs", "migrate", "import", "--everything", "--include=*.big", "--yes"}
	}

	// ---- S0, counting run, enumeration ----------------------------------------------
	state := sc.dir
	backup := filepath.Join(w.Root, "s0")
	copyTreeFull(state, backup)
	restore := func() {
		os.RemoveAll(state)
		copyTreeFull(backup, state)
	}
	logFile := filepath.Join(w.Root, "crash.log")
	os.Remove(logFile)
	outU, exitU := w.Run(sc.dir, &RunOpts{Env: []string{"VERIF_CRASH_LOG=" + logFile}}, "git", sc.args...)
	finalObjs := objectsOf(lfsFiles(sc.gitDir))
	finalBad := quarantinedOf(lfsFiles(sc.gitDir))
	for name, hsh := range finalObjs {
		if len(name) == 64 && name != hsh && kind != "fsck" {
			c.Violation("bad-object-without-crash", "uninterrupted %v left object %s hashing to %s", sc.args, name[:12], hsh[:12])
			return
		}
	}
	if exitU != 0 && !(kind == "fsck" && exitU == 1) && !sc.mayFail {
		panic(sim.HarnessError{Msg: fmt.Sprintf("uninterrupted %v exited %d: %s", sc.args, exitU, firstLine(outU))})
	}
	lb, _ := os.ReadFile(logFile)
	var points []string
	cnt := map[string]int{}
	skippedOutput := 0
	for _, l := range strings.Split(strings.TrimSpace(string(lb)), "\n") {
		if l == "" {
			continue
		}
		cnt[l]++
		if l == "smudge.output.begin" || l == "smudge.output.end" {
			continue
		}
		if l == "output.burst" {
			// copying an object out to the working tree / to Git does not
			// mutate local storage: outside the statement's quantifier
			skippedOutput++
			continue
		}
		points = append(points, fmt.Sprintf("%s:%d", l, cnt[l]))
	}
	if skippedOutput > 0 {
		c.Probe("output-copy-bursts-not-crashed")
	}
	if len(points) == 0 {
		c.Probe("no-crash-points")
	}
	// cap very long lists (copy bursts of big files): keep every non-burst point and a spread of bursts
	if len(points) > 60 {
		var keep []string
		for i, p := range points {
			if !strings.HasPrefix(p, "copy.burst") || i%3 == 0 {
				keep = append(keep, p)
			}
		}
		points = keep
	}
	for _, pt := range points {
		if c.Res.Class != "" {
			break
		}
		restore()
		os.Remove(logFile)
		_, code := w.Run(sc.dir, &RunOpts{Env: []string{"VERIF_CRASH=" + pt, "VERIF_CRASH_LOG=" + logFile}}, "git", sc.args...)
		c.Res.Points++
		c.Probe("crash:" + strings.SplitN(pt, ":", 2)[0])
		_ = code
		// (1) and (2) on the crashed state
		files := lfsFiles(sc.gitDir)
		pre := lfsFiles(filepath.Join(backup, ".git"))
		for rel, hsh := range files {
			parts := strings.Split(rel, string(filepath.Separator))
			switch parts[0] {
			case "objects":
				name := filepath.Base(rel)
				if old, had := pre[rel]; had && old != name {
					continue // damaged before the command started (fsck scenario input)
				}
				if name != hsh {
					c.Violation("bad-object-after-kill", "%s %v killed at %s: %s in local storage hashes to %s", kind, sc.args, pt, name[:12], hsh[:12])
				}
			case "tmp", "incomplete", "cache", "logs":
			case "bad":
				if !sc.bad {
					if _, had := pre[rel]; !had {
						c.Violation("leftover-outside-temp", "%s killed at %s left %s", kind, pt, rel)
					}
				}
			default:
				if _, had := pre[rel]; !had {
					c.Violation("leftover-outside-temp", "%s %v killed at %s left a new file lfs/%s outside the temporary areas", kind, sc.args, pt, rel)
				}
			}
		}
		if c.Res.Class != "" {
			break
		}
		// (3) re-run completes and reaches the uninterrupted run's storage state
		out2, exit2 := w.Run(sc.dir, nil, "git", sc.args...)
		if exit2 != exitU {
			// fsck: a second run after a completed repair reports missing objects with the same status 1
			c.Violation("rerun-fails-after-kill", "%s %v killed at %s: re-running exits %d (uninterrupted run: %d): %s", kind, sc.args, pt, exit2, exitU, clipStr(out2, 300))
			break
		}
		after := objectsOf(lfsFiles(sc.gitDir))
		if !sameMap(after, finalObjs) {
			c.Violation("rerun-reaches-different-storage", "%s %v killed at %s: after re-running, local storage differs from an uninterrupted run: %s", kind, sc.args, pt, diffMap(finalObjs, after))
			break
		}
		// what a repair moves aside is part of the state it must reach
		if sc.bad {
			if q := quarantinedOf(lfsFiles(sc.gitDir)); !sameMap(q, finalBad) {
				c.Violation("rerun-reaches-different-storage", "%s %v killed at %s: after re-running, the objects moved aside (lfs/bad) differ from an uninterrupted run: %s", kind, sc.args, pt, diffMap(finalBad, q))
				break
			}
		}
		for name, hsh := range after {
			if kind == "fsck" {
				break
			}
			if len(name) == 64 && name != hsh {
				c.Violation("bad-object-after-rerun", "%s killed at %s then re-run: %s hashes to %s", kind, pt, name[:12], hsh[:12])
			}
		}
	}
	c.T.Note(strings.Join(points, ","))
	for _, s := range w.Steps {
		c.T.Note(fmt.Sprintf("%v %d %v", s.Args, s.Exit, s.Killed))
	}
}
