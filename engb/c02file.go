package engb

import (
	"bytes"
	"fmt"
	"os"
	"path/filepath"
	"sort"

	"verif/sim"
)

func init() {
	Register("C02.file", func(c *Ctx) { runC02File(c) })
}

// runC02File: downloads from a file:// remote through git-lfs's built-in
// standalone agent (lfs-standalone-file). The "server" is the remote's own
// lfs/objects directory, whose files the harness damages.
func runC02File(c *Ctx) {
	t := c.T
	w := c.NewWorld(sim.Faults{})
	c.Res.Nontrivial = true
	root := w.Root
	// sometimes the remote lives on another file system (no hard links: the
	// agent copies)
	if t.Bool(1, 3, "remote-on-another-filesystem") {
		d, err := os.MkdirTemp(os.TempDir(), "verif-fileremote-")
		if err != nil {
			panic(sim.HarnessError{Msg: err.Error()})
		}
		defer os.RemoveAll(d)
		root = d
		c.Probe("remote-on-another-filesystem")
	}
	remote := filepath.Join(root, "remote.git")
	w.MustGit(w.Root, "init", "-q", "--bare", remote)
	w.FileRemotes = map[string]bool{remote: true}
	u1 := filepath.Join(w.Root, "u1")
	h := NewHist(w, u1)
	h.fixedTracking = true
	h.Init()
	w.MustGit(u1, "remote", "add", "origin", "file://"+remote)
	w.ConfigureClone(u1, map[string]string{"lfs.url": ""})
	n := 1 + t.Choose(4, "n-objects")
	for i := 0; i < n; i++ {
		h.WriteFile(fmt.Sprintf("f%d.bin", i), h.NewContent())
	}
	h.commit("files")
	if _, code := w.Git(u1, "push", "-q", "origin", "main"); code != 0 {
		panic(sim.HarnessError{Msg: "push to the file remote failed: " + w.lastOutput()})
	}
	u2 := filepath.Join(w.Root, "u2")
	conc := []string{"1", "3"}[t.Choose(2, "concurrency")]
	args := []string{"clone", "-q", "-c", "lfs.concurrenttransfers=" + conc,
		"-c", "lfs.transfer.maxretries=" + []string{"1", "2"}[t.Choose(2, "maxretries")], "-c", "lfs.transfer.maxretrydelay=0",
		"file://" + remote, u2}
	if _, code := w.GitEnv(w.Root, []string{"GIT_LFS_SKIP_SMUDGE=1"}, args...); code != 0 {
		panic(sim.HarnessError{Msg: "clone failed: " + w.lastOutput()})
	}
	g2 := filepath.Join(u2, ".git")
	ptrs := w.TreePointers(u2, "HEAD")
	var oids []string
	for _, p := range ptrs {
		if _, ok := h.Contents[p.Oid]; ok && p.Size > 0 {
			oids = append(oids, p.Oid)
		}
	}
	sort.Strings(oids)
	for _, o := range oids {
		if b, ok := w.StoreGet(remote, o); !ok || Oid(b) != o {
			panic(sim.HarnessError{Msg: "the push did not store " + o[:12] + " in the file remote"})
		}
	}
	kinds := []string{"ok", "ok", "bitflip", "truncated", "extra", "missing", "other-object", "empty"}
	behave := map[string]string{}
	pre := map[string][]byte{}
	for i, o := range oids {
		k := kinds[t.Choose(len(kinds), "remote-object-state")]
		behave[o] = k
		good := h.Contents[o]
		var bad []byte
		switch k {
		case "bitflip":
			bad = append([]byte{}, good...)
			bad[t.Choose(len(bad), "flip-at")] ^= 0x20
		case "truncated":
			bad = good[:t.Choose(len(good), "truncate-to")]
		case "extra":
			bad = append(append([]byte{}, good...), []byte("trailing bytes")...)
		case "other-object":
			other := oids[(i+1)%len(oids)]
			if other == o {
				behave[o] = "ok"
			} else {
				bad = h.Contents[other]
			}
		case "empty":
			bad = []byte{}
		}
		switch behave[o] {
		case "ok":
		case "missing":
			w.StoreDelete(remote, o)
		default:
			// replace, never write through a hard link shared with u1's store
			w.StoreDelete(remote, o)
			w.StorePut(remote, o, bad)
		}
		if t.Bool(1, 5, "garbage-at-final-path") {
			p := ObjectPath(g2, o)
			os.MkdirAll(filepath.Dir(p), 0755)
			os.WriteFile(p, []byte("stale garbage of the wrong size"), 0644)
			pre[o] = []byte("stale garbage of the wrong size")
		}
	}
	rounds := 1 + t.Choose(2, "rounds")
	for r := 0; r < rounds && c.Res.Class == ""; r++ {
		cmd := [][]string{{"lfs", "fetch", "origin"}, {"lfs", "pull"}, {"checkout", "-f", "HEAD", "--", "."}, {"lfs", "fetch", "--all"}}[t.Choose(4, "download-command")]
		if cmd[0] == "checkout" {
			// make git run the smudge filter again
			for p := range ptrs {
				os.Remove(filepath.Join(u2, p))
			}
		}
		out, code := w.Git(u2, cmd...)
		for _, o := range oids {
			p := ObjectPath(g2, o)
			cur, err := os.ReadFile(p)
			exists := err == nil
			kind := behave[o]
			if exists && Oid(cur) == o {
				c.Probe("object-stored-valid")
				if kind != "ok" {
					c.Violation("valid-object-from-bad-remote", "object %s is stored and valid although the remote's copy was %q", o[:12], kind)
				}
				continue
			}
			if exists {
				if prev, had := pre[o]; had && bytes.Equal(prev, cur) {
					c.Probe("stale-file-left-alone")
					if kind == "ok" && code == 0 && cmd[0] == "lfs" {
						c.Violation("success-with-bad-content", "git %v exited 0 and the remote holds %s, but the stale file is still at the final location", cmd, o[:12])
					}
					continue
				}
				c.Violation("bad-object-stored", "after git %v (exit %d) from a file:// remote whose copy of the object was %q, %d bytes hashing to %s sit at the final location of %s; output: %s", cmd, code, kind, len(cur), Oid(cur)[:12], o[:12], clipStr(out, 200))
				break
			}
			if _, had := pre[o]; had && cmd[1] != "fetch" {
				// the smudge path deliberately removes a local file of the wrong
				// size before downloading: neither created nor replaced
				c.Probe("stale-file-removed-by-smudge-path")
				delete(pre, o)
				continue
			}
			if _, had := pre[o]; had {
				c.Violation("failure-removed-file", "the file that was at the final location of %s before the download is gone (remote copy %q)", o[:12], kind)
				break
			}
			c.Probe("nothing-stored")
			if kind == "ok" && code == 0 && cmd[0] == "lfs" {
				c.Violation("success-without-file", "git %v exited 0 and the remote holds %s, but nothing is stored", cmd, o[:12])
			}
		}
		if code == 0 && cmd[0] == "lfs" && c.Res.Class == "" {
			for _, o := range oids {
				if b, err := os.ReadFile(ObjectPath(g2, o)); err != nil || Oid(b) != o {
					c.Violation("success-without-file", "git %v exited 0 but %s (remote copy %q) is not validly stored", cmd, o[:12], behave[o])
					break
				}
			}
		}
		// the remote's own store is never made worse by a download
		for _, o := range oids {
			if behave[o] == "ok" {
				if b, ok := w.StoreGet(remote, o); !ok || Oid(b) != o {
					c.Violation("download-damaged-remote", "after git %v the file remote's copy of %s is no longer valid", cmd, o[:12])
				}
			}
		}
		// second round: the remote is repaired
		for _, o := range oids {
			if behave[o] != "ok" {
				w.StoreDelete(remote, o)
				w.StorePut(remote, o, h.Contents[o])
				behave[o] = "ok"
			}
		}
	}
	for _, s := range w.Steps {
		c.T.Note(fmt.Sprintf("%v %d", s.Args[:min(len(s.Args), 4)], s.Exit))
	}
}
