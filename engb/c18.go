package engb

import (
	"encoding/json"
	"fmt"
	"os"
	"path/filepath"
	"strings"
	"sync"

	"github.com/xeipuuv/gojsonschema"

	"verif/sim"
)

func init() {
	// The conformance monitor of C18 over the engine-B scenarios: the same
	// histories as C16 (lock API) and C03 (batch, storage, verify through
	// real pushes), judged only for what the client sends.
	Register("C18.locks", func(c *Ctx) {
		runC16(c, true)
		c.Res.Class, c.Res.Detail = "", ""
		c.softClass, c.softDetail = "", ""
		monitorB(c)
	})
	Register("C18.push", func(c *Ctx) {
		c.offerHeaders = true
		runC03(c, true, false)
		c.Res.Class, c.Res.Detail = "", ""
		monitorB(c)
	})
}

var schemaOnceB sync.Once
var schemasB = map[string]*gojsonschema.Schema{}
var schemaErrB error

func validateB(name string, body []byte) string {
	schemaOnceB.Do(func() {
		for _, n := range []string{"http-batch-request-schema.json", "http-lock-create-request-schema.json", "http-lock-delete-request-schema.json"} {
			sc, err := gojsonschema.NewSchema(gojsonschema.NewReferenceLoader("file://" + filepath.Join(schemaDirB(), n)))
			if err != nil {
				schemaErrB = fmt.Errorf("%s: %v", n, err)
				return
			}
			schemasB[n] = sc
		}
	})
	if schemaErrB != nil {
		panic(sim.HarnessError{Msg: "cannot load API schema: " + schemaErrB.Error()})
	}
	res, err := schemasB[name].Validate(gojsonschema.NewBytesLoader(body))
	if err != nil {
		return "not valid JSON: " + err.Error()
	}
	if !res.Valid() {
		var m []string
		for _, e := range res.Errors() {
			m = append(m, e.String())
		}
		return strings.Join(m, "; ")
	}
	return ""
}

func lfsMediaOK(v string) bool {
	v = strings.ToLower(strings.ReplaceAll(v, " ", ""))
	return v == "application/vnd.git-lfs+json" || v == "application/vnd.git-lfs+json;charset=utf-8"
}

func monitorB(c *Ctx) {
	if c.W == nil || c.Res.Harness != "" {
		return
	}
	w := c.W
	for _, r := range w.Front.Requests() {
		isAPI := strings.HasPrefix(r.Path, w.Srv.APIPrefix+"/")
		if isAPI && r.Method == "POST" {
			if !lfsMediaOK(r.Header.Get("Accept")) || !lfsMediaOK(r.Header.Get("Content-Type")) {
				c.Violation("api-nonconformant", "%s %s: Accept=%q Content-Type=%q", r.Method, r.Path, r.Header.Get("Accept"), r.Header.Get("Content-Type"))
				return
			}
		}
		if isAPI && r.Method == "GET" && !lfsMediaOK(r.Header.Get("Accept")) {
			c.Violation("api-nonconformant", "%s %s: Accept=%q", r.Method, r.Path, r.Header.Get("Accept"))
			return
		}
		switch {
		case strings.HasSuffix(r.Path, "/objects/batch"):
			c.Probe("batch-request-checked")
			if msg := validateB("http-batch-request-schema.json", r.Body); msg != "" {
				c.Violation("api-nonconformant", "batch request violates the published schema: %s; body=%s", msg, clipStr(string(r.Body), 300))
				return
			}
			var br sim.BatchReq
			json.Unmarshal(r.Body, &br)
			seen := map[string]bool{}
			for _, o := range br.Objects {
				if o.Size < 0 || seen[o.Oid] || len(o.Oid) != 64 {
					c.Violation("api-nonconformant", "batch request object %s size %d (negative size, duplicate or malformed oid)", o.Oid, o.Size)
					return
				}
				seen[o.Oid] = true
			}
			if br.HashAlgo != "" && br.HashAlgo != "sha256" {
				c.Violation("api-nonconformant", "batch request hash_algo=%q", br.HashAlgo)
				return
			}
		case r.Kind == "lock-create":
			c.Probe("lock-create-checked")
			if msg := validateB("http-lock-create-request-schema.json", r.Body); msg != "" {
				c.Violation("api-nonconformant", "lock create request violates the published schema: %s; body=%s", msg, clipStr(string(r.Body), 200))
				return
			}
		case r.Kind == "lock-delete":
			c.Probe("lock-delete-checked")
			if msg := validateB("http-lock-delete-request-schema.json", r.Body); msg != "" {
				c.Violation("api-nonconformant", "unlock request violates the published schema: %s; body=%s", msg, clipStr(string(r.Body), 200))
				return
			}
		case r.Kind == "lock-verify":
			c.Probe("lock-verify-checked")
			var v map[string]interface{}
			if json.Unmarshal(r.Body, &v) != nil {
				c.Violation("api-nonconformant", "lock verify body is not a JSON object: %s", clipStr(string(r.Body), 200))
				return
			}
			for k, val := range v {
				switch k {
				case "cursor":
					if _, ok := val.(string); !ok {
						c.Violation("api-nonconformant", "lock verify cursor is not a string: %v", val)
						return
					}
				case "limit":
					if f, ok := val.(float64); !ok || f < 0 {
						c.Violation("api-nonconformant", "lock verify limit is not a non-negative number: %v", val)
						return
					}
				case "ref":
					if m, ok := val.(map[string]interface{}); !ok || m["name"] == nil {
						c.Violation("api-nonconformant", "lock verify ref is not {name}: %v", val)
						return
					}
				default:
					c.Violation("api-nonconformant", "lock verify body has unknown key %q", k)
					return
				}
			}
		case r.Kind == "lock-list":
			c.Probe("lock-list-checked")
		}
	}
	for _, p := range w.Srv.Problems {
		c.Violation("api-action-misuse", "%s", p)
		return
	}
	if w.Srv.Locks != nil {
		for _, p := range c.Res.APIProblems {
			c.Violation("api-nonconformant", "lock API: %s", p)
			return
		}
	}
}

func schemaDirB() string {
	if d := os.Getenv("VERIF_SCHEMA_DIR"); d != "" {
		return d
	}
	return "/repo/docs/api/schemas"
}
