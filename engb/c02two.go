package engb

import (
	"fmt"
	"os"
	"path/filepath"
	"strings"
	"time"

	"verif/sim"
)

// C02.two: two git-lfs processes fetch the same object into the same
// repository at the same time. Their interleaving is fixed from the server's
// side: the first process's download is held after half of the body until the
// second process has come and gone, then allowed to finish. Variations: a stale
// partial file (so that one of them resumes), servers that honour, ignore or
// reject Range requests, fetch / pull / smudge as the commands.
func init() {
	Register("C02.two", runC02Two)
}

func runC02Two(c *Ctx) {
	t := c.T
	w := c.NewWorld(sim.Faults{})
	c.Res.Nontrivial = true
	remote := w.InitBare("remote.git")
	u1 := filepath.Join(w.Root, "u1")
	h := NewHist(w, u1)
	h.Init()
	w.MustGit(u1, "remote", "add", "origin", remote)
	w.ConfigureClone(u1, nil)
	size := []int{200000, 70000, 600000}[t.Choose(3, "object-size")]
	data := make([]byte, size)
	r := sim.NewSplitMix(t.Seed + 77)
	for i := 0; i < size; i += 8 {
		v := r.Next()
		for j := 0; j < 8 && i+j < size; j++ {
			data[i+j] = byte(v >> (8 * uint(j)))
		}
	}
	h.WriteFile("big.bin", data)
	h.commit("big")
	if _, code := w.Git(u1, "push", "-q", "origin", "main"); code != 0 {
		panic(sim.HarnessError{Msg: "set-up push failed: " + w.lastOutput()})
	}
	oid := Oid(data)
	u2 := filepath.Join(w.Root, "u2")
	if _, code := w.GitEnv(w.Root, []string{"GIT_LFS_SKIP_SMUDGE=1"}, "clone", "-q", "-c", "lfs.url="+w.LFSURL(), "-c", "lfs.transfer.maxretries=2", "-c", "lfs.transfer.maxretrydelay=0", remote, u2); code != 0 {
		panic(sim.HarnessError{Msg: "clone failed: " + w.lastOutput()})
	}
	g2 := filepath.Join(u2, ".git")
	final := ObjectPath(g2, oid)
	stale := []string{"absent", "valid-prefix", "garbage"}[t.Choose(3, "stale-part")]
	inc := filepath.Join(g2, "lfs", "incomplete")
	os.MkdirAll(inc, 0755)
	switch stale {
	case "valid-prefix":
		os.WriteFile(filepath.Join(inc, oid+".part"), data[:size/3], 0644)
	case "garbage":
		os.WriteFile(filepath.Join(inc, oid+".part"), []byte(strings.Repeat("garbage ", size/24)), 0644)
	}
	rangeMode := []string{"honoured", "ignored-200", "416", "bad-content-range"}[t.Choose(4, "server-range-support")]
	switch rangeMode {
	case "ignored-200":
		w.Srv.F.RangeIgnore = 1000
	case "416":
		w.Srv.F.Range416 = 1000
	case "bad-content-range":
		w.Srv.F.RangeBadHeader = 1000
	}
	cmdFor := func(k int) []string {
		switch k {
		case 1:
			return []string{"lfs", "pull", "origin"}
		default:
			return []string{"lfs", "fetch", "origin"}
		}
	}
	argsA := cmdFor(t.Choose(2, "first-command"))
	argsB := cmdFor(t.Choose(2, "second-command"))
	holdAt := []int{2, 4, 10}[t.Choose(3, "hold-after-fraction")]

	stalled := make(chan struct{}, 1)
	release := make(chan struct{})
	first := true
	w.Front.Stall = func(rec *sim.ReqRec, n int) (int, <-chan struct{}) {
		if rec.Method != "GET" || !strings.HasSuffix(rec.Path, oid) || rec.Status >= 300 {
			return 0, nil
		}
		w.Front.mu.Lock()
		mine := first
		first = false
		w.Front.mu.Unlock()
		if !mine {
			return 0, nil
		}
		select {
		case stalled <- struct{}{}:
		default:
		}
		return n / holdAt, release
	}
	type res struct {
		out  string
		code int
	}
	doneA := make(chan res, 1)
	go func() {
		out, code := w.Git(u2, argsA...)
		doneA <- res{out, code}
	}()
	var ra res
	aFinishedEarly := false
	select {
	case <-stalled:
	case ra = <-doneA:
		aFinishedEarly = true // no download happened (should not be)
	case <-time.After(40 * time.Second):
		panic(sim.HarnessError{Msg: "first process never reached its download"})
	}
	// what the server sends to the second process may be damaged
	secondBody := []string{"exact", "exact", "bit-flip", "extra-bytes", "other-object", "cut"}[t.Choose(6, "second-process-body")]
	w.Front.mu.Lock()
	switch secondBody {
	case "bit-flip":
		w.Srv.F.GetFlip = 1000
	case "extra-bytes":
		w.Srv.F.GetExtra = 1000
	case "other-object":
		w.Srv.F.GetOther = 1000
	case "cut":
		w.Srv.F.GetCut = 1000
	}
	w.Front.mu.Unlock()
	outB, codeB := w.Git(u2, argsB...)
	w.Front.mu.Lock()
	w.Srv.F.GetFlip, w.Srv.F.GetExtra, w.Srv.F.GetOther, w.Srv.F.GetCut = 0, 0, 0, 0
	w.Front.mu.Unlock()
	close(release)
	if !aFinishedEarly {
		ra = <-doneA
	}
	w.Front.Stall = nil
	desc := fmt.Sprintf("first %v (held after 1/%d of the body) exit %d, second %v exit %d; stale .part %s, Range %s, body sent to the second process: %s, object %d bytes", argsA, holdAt, ra.code, argsB, codeB, stale, rangeMode, secondBody, size)
	c.Probe("two-processes-" + stale + "-" + rangeMode)
	b, err := os.ReadFile(final)
	if err == nil && Oid(b) != oid {
		c.Violation("bad-object-stored", "%s: the file at the object's final location has %d bytes hashing to %s", desc, len(b), Oid(b)[:12])
		return
	}
	if (ra.code == 0 || codeB == 0) && err != nil {
		c.Violation("success-without-file", "%s: a process reported success but there is no object in local storage; outputs: %s | %s", desc, firstLine(ra.out), firstLine(outB))
		return
	}
	if ra.code == 0 && codeB == 0 {
		c.Probe("both-succeeded")
	}
	// and a later, undisturbed fetch still works
	if _, code := w.Git(u2, "lfs", "fetch", "origin"); code != 0 && rangeMode == "honoured" {
		c.Violation("later-fetch-fails", "%s: a later undisturbed git lfs fetch exits %d", desc, code)
		return
	}
	if b, err := os.ReadFile(final); err == nil && Oid(b) != oid {
		c.Violation("bad-object-stored", "%s: after a later fetch the final location holds %d bytes hashing to %s", desc, len(b), Oid(b)[:12])
	}
	for _, s := range w.Steps {
		c.T.Note(fmt.Sprintf("%v %d", s.Args, s.Exit))
	}
}
