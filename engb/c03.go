package engb

import (
	"fmt"
	"os"
	"path/filepath"
	"sort"
	"strings"

	"verif/sim"
)

func init() {
	Register("C03", func(c *Ctx) { runC03(c, true, false) })
	Register("C03.nofault", func(c *Ctx) { runC03(c, false, false) })
	Register("C03.file", func(c *Ctx) { runC03(c, true, true) })
	Register("C03.ssh", func(c *Ctx) { c.sshRemote = true; runC03(c, true, false) })
}

func pickRateB(t *sim.Tape, label string, onNum, onDen int) int {
	if !t.Bool(onNum, onDen, label+"?") {
		return 0
	}
	return []int{80, 250, 500}[t.Choose(3, label+"-rate")]
}

// serverHasAll checks the inductive invariant of C03 on the remote: every
// pointer reachable from any ref of the bare remote is on the server with
// matching content. Returns the first counterexample.
func serverMissing(w *World, remote string, exempt map[string]bool) (string, bool) {
	ptrs := w.ReachablePointers(remote, "--all")
	var oids []string
	for oid := range ptrs {
		oids = append(oids, oid)
	}
	sort.Strings(oids)
	where := "the LFS server"
	if w.FileRemotes[remote] {
		where = "the file:// remote's store"
	}
	for _, oid := range oids {
		if exempt[oid] {
			continue
		}
		p := ptrs[oid]
		if p.Size == 0 {
			continue // the empty object is never transferred
		}
		data, ok := w.StoreGet(remote, oid)
		if !ok {
			return fmt.Sprintf("object %s (size %d, paths %v) is referenced from the remote's refs but absent from %s", oid[:12], p.Size, clipPaths(p.Paths), where), true
		}
		if Oid(data) != oid {
			return fmt.Sprintf("object %s in %s has content hashing to %s", oid[:12], where, Oid(data)[:12]), true
		}
	}
	return "", false
}

func clipPaths(p []string) []string {
	sort.Strings(p)
	if len(p) > 4 {
		return p[:4]
	}
	return p
}

func runC03(c *Ctx, faults, fileRemote bool) {
	t := c.T
	var f sim.Faults
	if faults && !fileRemote {
		f.Batch5xx = pickRateB(t, "batch5xx", 1, 4)
		f.Batch429 = pickRateB(t, "batch429", 1, 6)
		f.RetryAfterKinds = 2
		f.RetryAfterMax = 1
		f.Put5xx = pickRateB(t, "put5xx", 1, 3)
		f.Put4xx = pickRateB(t, "put4xx", 1, 6)
		f.Put422 = pickRateB(t, "put422", 1, 6)
		f.PutLostReply = pickRateB(t, "putlost", 1, 5)
		f.PutNotStored = pickRateB(t, "putnotstored", 1, 3)
		f.Verify5xx = pickRateB(t, "verify5xx", 1, 5)
		f.Verify4xx = pickRateB(t, "verify4xx", 1, 6)
		f.ObjError = pickRateB(t, "objerror", 1, 6)
		f.ObjExpired = pickRateB(t, "objexpired", 1, 6)
	}
	w := c.NewWorld(f)
	remote := w.InitBare("remote.git")
	remote2 := ""
	u1 := filepath.Join(w.Root, "u1")
	h := NewHist(w, u1)
	h.Init()
	settings := map[string]string{}
	var sshScript map[string]interface{}
	if c.sshRemote {
		// LFS objects travel over the pure SSH transfer protocol to a scripted
		// peer that keeps them in a directory; Git itself uses the local path
		store := filepath.Join(w.Root, "ssh-store")
		os.MkdirAll(store, 0755)
		w.SSHStores = map[string]string{remote: store}
		w.MustGit(u1, "remote", "add", "origin", remote)
		settings["lfs.url"] = "ssh://git@simhost/repo.git"
		settings["lfs.ssh.automultiplex"] = []string{"false", "true"}[t.Choose(2, "multiplex")]
		script := map[string]interface{}{"source": store, "pure": true, "chunk": []int{32768, 1000, 65516}[t.Choose(3, "packet-size")]}
		if faults {
			if t.Bool(1, 2, "ssh-put-faults?") {
				script["put_faults"] = [][]string{{"ok", "status500"}, {"ok", "ok", "status403"}, {"ok", "status429"}, {"ok", "ok", "lost"}, {"ok", "die"}, {"status500", "status403", "lost", "ok"}}[t.Choose(6, "ssh-put-faults")]
			}
			if t.Bool(1, 3, "ssh-verify-faults?") {
				script["verify_faults"] = [][]string{{"ok", "status500"}, {"ok", "ok", "die"}}[t.Choose(2, "ssh-verify-faults")]
			}
			if t.Bool(1, 4, "ssh-batch-faults?") {
				script["batch"] = [][]string{{"status500", "ok"}, {"ok", "status500", "ok"}, {"omit-last", "ok"}}[t.Choose(3, "ssh-batch-faults")]
			}
		}
		sshScript = script
		c.Probe("ssh-remote")
	} else if fileRemote {
		// the remote is reached through a file:// URL: no LFS server, git-lfs's
		// own standalone agent copies objects into <remote>/lfs/objects
		w.FileRemotes = map[string]bool{remote: true}
		w.MustGit(u1, "remote", "add", "origin", "file://"+remote)
		settings["lfs.url"] = ""
		c.Probe("file-remote")
	} else {
		w.MustGit(u1, "remote", "add", "origin", remote)
	}
	allowIncomplete := t.Bool(1, 5, "allowincompletepush")
	batchSize := []string{"100", "1", "2", "3"}[t.Choose(4, "batch-size")]
	for k, v := range map[string]string{
		"lfs.allowincompletepush": fmt.Sprint(allowIncomplete),
		"lfs.transfer.batchsize":  batchSize,
		"lfs.concurrenttransfers": []string{"3", "1", "8"}[t.Choose(3, "concurrency")],
	} {
		settings[k] = v
	}
	if sshScript != nil {
		// a peer process that dies takes its whole connection with it; which
		// transfers share a connection is only fixed with one transfer at a time
		if settings["lfs.concurrenttransfers"] != "1" {
			for _, k := range []string{"put_faults", "verify_faults"} {
				if l, ok := sshScript[k].([]string); ok {
					for i := range l {
						if l[i] == "die" {
							l[i] = "status500"
						}
					}
				}
			}
		}
		env, _ := sshSetup(w, sshScript)
		w.ExtraEnv = append(w.ExtraEnv, env...)
	}
	w.ConfigureClone(u1, settings)
	// fetch filters configured in the pushing clone say nothing about what a push uploads
	switch t.Choose(6, "fetch-filter-in-pushing-clone") {
	case 1:
		w.MustGit(u1, "config", "lfs.fetchexclude", "dir")
		c.Probe("fetch-filter-in-pushing-clone")
	case 2:
		w.MustGit(u1, "config", "lfs.fetchexclude", "*.dat")
		w.MustGit(u1, "config", "lfs.fetchinclude", "dir")
		c.Probe("fetch-filter-in-pushing-clone")
	}
	// the retry budget varies (with 1, a single failure exhausts an object)
	w.MustGit(u1, "config", "lfs.transfer.maxretries", []string{"2", "1", "8"}[t.Choose(3, "maxretries")])
	if !c.sshRemote && t.Bool(1, 4, "second-remote") {
		remote2 = w.InitBare("remote2.git")
		if fileRemote && t.Bool(2, 3, "second-remote-is-file-too") {
			w.FileRemotes[remote2] = true
			w.MustGit(u1, "remote", "add", "second", "file://"+remote2)
		} else if fileRemote {
			// a file:// origin next to a remote served by an LFS server
			w.MustGit(u1, "remote", "add", "second", remote2)
			w.MustGit(u1, "config", "remote.second.lfsurl", w.LFSURL())
			c.Probe("file-remote-next-to-http-remote")
		} else {
			w.MustGit(u1, "remote", "add", "second", remote2)
		}
		// the second remote may have its own LFS server (remote.<name>.lfsurl
		// instead of one lfs.url for everything)
		if !fileRemote && t.Bool(1, 2, "second-remote-own-lfs-server") {
			fr2 := w.AddServer()
			w.RemoteSrv = map[string]*Front{remote2: fr2}
			w.MustGit(u1, "config", "--unset", "lfs.url")
			w.MustGit(u1, "config", "remote.origin.lfsurl", w.LFSURL())
			w.MustGit(u1, "config", "remote.second.lfsurl", fr2.Base+fr2.Srv.APIPrefix)
			c.Probe("second-remote-own-lfs-server")
		}
	}
	c.Res.Nontrivial = true
	c.serverGC = t.Bool(1, 3, "server-gc")
	h.tagLikeBranch = t.Bool(1, 3, "tags-named-like-branches")
	nsteps := 4 + t.Choose(14, "n-steps")
	exempt := map[string]bool{}
	pushes := 0
	for i := 0; i < nsteps && c.Res.Class == ""; i++ {
		if t.Choose(3, "step-kind") != 0 {
			h.Step()
			continue
		}
		// sometimes another user deletes a branch on the remote behind this
		// clone's back (its remote-tracking ref goes stale) and the server
		// garbage-collects what is no longer referenced
		if t.Bool(1, 8, "remote-side-branch-deletion") {
			refs := w.Refs(remote)
			var bs []string
			for r := range refs {
				if strings.HasPrefix(r, "refs/heads/") && r != "refs/heads/main" {
					bs = append(bs, r)
				}
			}
			sort.Strings(bs)
			if len(bs) > 0 {
				victim := bs[t.Choose(len(bs), "remote-deletes")]
				w.Git(remote, "update-ref", "-d", victim)
				h.log("remote side deleted %s", victim)
				c.Probe("remote-side-branch-deletion")
				if serverGC(c, w, remote, remote2) {
					c.Probe("server-gc-dropped-objects")
				}
			}
		}
		// sometimes the deleted branch's name lives on as a tag on the remote
		// (pointing at history that does not hold the branch's objects)
		if c.serverGC && h.tagLikeBranch && h.Cur != "main" && t.Bool(1, 3, "stale-branch-whose-name-is-also-a-tag") {
			x := h.Cur
			doPush(c, w, h, u1, remote, remote2, allowIncomplete, nil, exempt, "push", "-q", "origin", "refs/heads/"+x)
			if c.Res.Class != "" {
				break
			}
			root, _ := w.GitQ(u1, "rev-list", "--max-parents=0", "main")
			root = strings.TrimSpace(strings.Split(root, "\n")[0])
			if _, has := w.Refs(remote)["refs/heads/"+x]; has && root != "" {
				w.Git(u1, "tag", "-f", x, root)
				known := false
				for _, tg := range h.Tags {
					known = known || tg == x
				}
				if !known {
					h.Tags = append(h.Tags, x)
				}
				doPush(c, w, h, u1, remote, remote2, allowIncomplete, nil, exempt, "push", "-q", "-f", "origin", "refs/tags/"+x)
				if c.Res.Class != "" {
					break
				}
				w.Git(remote, "update-ref", "-d", "refs/heads/"+x)
				h.log("remote side deleted refs/heads/%s (a tag of that name stays)", x)
				c.Probe("stale-branch-named-like-remote-tag")
				if serverGC(c, w, remote, remote2) {
					c.Probe("server-gc-dropped-objects")
				}
			}
		}
		// sometimes lose local objects first
		var lost []string
		if t.Bool(1, 6, "lose-local-objects") {
			objs := LocalObjects(filepath.Join(u1, ".git"))
			var oids []string
			for o := range objs {
				oids = append(oids, o)
			}
			sort.Strings(oids)
			if len(oids) > 0 {
				o := oids[t.Choose(len(oids), "lose-which")]
				os.Remove(ObjectPath(filepath.Join(u1, ".git"), o))
				lost = append(lost, o)
				if t.Choose(2, "server-has-lost") == 1 {
					for _, r := range []string{remote, remote2} {
						if r != "" {
							w.StorePut(r, o, objs[o])
						}
					}
				}
				h.log("lost local object %s", o[:12])
			}
		}
		pushes++
		doPush(c, w, h, u1, remote, remote2, allowIncomplete, lost, exempt)
	}
	// always finish with a push of everything
	if c.Res.Class == "" {
		doPush(c, w, h, u1, remote, remote2, allowIncomplete, nil, exempt)
	}
	if c.sshRemote {
		for _, e := range readSSHLog(filepath.Join(w.Root, "ssh.log")) {
			switch e.Kind {
			case "put-object", "verify-object", "batch":
				c.Probe("ssh-" + e.Kind + ":" + e.Behave)
			}
		}
	}
	c.T.Note(strings.Join(h.Ops, ";"))
	for _, s := range w.Steps {
		c.T.Note(fmt.Sprintf("%s %v %d", s.Dir, s.Args, s.Exit))
	}
}

func doPush(c *Ctx, w *World, h *Hist, u1, remote, remote2 string, allowIncomplete bool, lost []string, exempt map[string]bool, forced ...string) {
	t := c.T
	target := remote
	rname := "origin"
	if len(forced) == 0 && remote2 != "" && t.Choose(3, "push-remote") == 0 {
		target, rname = remote2, "second"
	}
	before := w.Refs(target)
	// objects absent locally and on the server before this push
	absent := map[string]bool{}
	local := LocalObjects(filepath.Join(u1, ".git"))
	alreadyRemote := w.ReachablePointers(target, "--all")
	for oid := range w.ReachablePointers(u1, "--all") {
		if _, l := local[oid]; !l {
			if _, s := w.StoreGet(target, oid); !s {
				if _, r := alreadyRemote[oid]; !r {
					absent[oid] = true
				}
			}
		}
	}
	var args []string
	kind := 8
	if len(forced) == 0 {
		kind = t.Choose(8, "push-kind")
	}
	// a tag may carry the branch's name: spell the branch out then
	cur := h.Cur
	for _, tg := range h.Tags {
		if tg == cur {
			cur = "refs/heads/" + h.Cur
		}
	}
	switch kind {
	case 8:
		args = forced
	case 0, 1:
		args = []string{"push", "-q", rname, cur}
	case 2:
		args = []string{"push", "-q", rname, "--all"}
	case 3:
		args = []string{"push", "-q", rname, "--tags"}
	case 4:
		args = []string{"push", "-q", "--force", rname, cur}
	case 5:
		// delete a remote branch if there is one
		var bs []string
		for r := range before {
			if strings.HasPrefix(r, "refs/heads/") {
				bs = append(bs, strings.TrimPrefix(r, "refs/heads/"))
			}
		}
		sort.Strings(bs)
		if len(bs) == 0 {
			args = []string{"push", "-q", rname, h.Cur}
		} else {
			args = []string{"push", "-q", rname, "--delete", bs[t.Choose(len(bs), "delete-branch")]}
		}
	case 6:
		args = []string{"lfs", "push", rname, cur}
	default:
		args = []string{"lfs", "push", "--all", rname}
	}
	out, code := w.Git(u1, args...)
	h.log("%s -> %d", strings.Join(args, " "), code)
	after := w.Refs(target)
	moved := !refsEqual(before, after)
	isGitPush := args[0] == "push"
	if code != 0 {
		c.Probe("push-failed")
		if isGitPush && moved && !strings.Contains(strings.Join(args, " "), "--all") && !strings.Contains(strings.Join(args, " "), "--tags") {
			c.Violation("failed-push-moved-refs", "%v exited %d but the remote's refs changed", args, code)
		}
		return
	}
	c.Probe("push-ok")
	if isGitPush && serverGC(c, w, remote, remote2) {
		c.Probe("server-gc-dropped-objects")
	}
	if !isGitPush {
		return // git lfs push moves no ref; the invariant is checked at ref-moving pushes
	}
	if !moved {
		return
	}
	c.Probe("push-moved-refs")
	// objects that were absent everywhere: allowed only with allowincompletepush
	ptrs := w.ReachablePointers(target, "--all")
	for oid := range absent {
		if _, ref := ptrs[oid]; ref {
			if allowIncomplete {
				exempt[oid] = true
				c.Probe("incomplete-push-allowed")
			} else {
				if _, onSrv := w.StoreGet(target, oid); !onSrv {
					c.Violation("push-succeeded-without-object", "%v exited 0 and moved refs of %s although object %s was absent locally and on the server and lfs.allowincompletepush is false; output: %s", args, filepath.Base(target), oid[:12], firstLine(out))
					return
				}
			}
		}
	}
	if msg, bad := serverMissing(w, target, exempt); bad {
		c.Violation("pushed-ref-lacks-object", "after %v (exit 0): %s", args, msg)
	}
}

// serverGC models a server that garbage-collects: in scenarios that opted in,
// objects no longer referenced from any ref of any remote are dropped from the
// LFS store after a push (legitimate server behaviour; later pushes of commits
// that reference them must upload them again).
func serverGC(c *Ctx, w *World, remotes ...string) bool {
	if !c.serverGC {
		return false
	}
	dropped := false
	// remotes sharing one store keep the union of what they reference
	keepBy := map[string]map[string]bool{}
	for _, r := range remotes {
		if r == "" {
			continue
		}
		k := w.StoreKey(r)
		if keepBy[k] == nil {
			keepBy[k] = map[string]bool{}
		}
		for oid := range w.ReachablePointers(r, "--all") {
			keepBy[k][oid] = true
		}
	}
	seen := map[string]bool{}
	for _, r := range remotes {
		if r == "" || seen[w.StoreKey(r)] {
			continue
		}
		seen[w.StoreKey(r)] = true
		for _, oid := range w.StoreOids(r) {
			if !keepBy[w.StoreKey(r)][oid] {
				w.StoreDelete(r, oid)
				dropped = true
			}
		}
	}
	return dropped
}
