#!/bin/sh
# validates MANIFEST.json and every evidence file against the given schemas
python3-vt - <<'PY'
import json,jsonschema,glob,sys
jsonschema.validate(json.load(open('/verif/MANIFEST.json')), json.load(open('/root/.vp/MANIFEST.schema.json')))
print('manifest ok')
s=json.load(open('/root/.vp/EVIDENCE.schema.json'))
for f in sorted(glob.glob('/verif/evidence/*.json')):
    jsonschema.validate(json.load(open(f)), s); print('ok', f)
m=json.load(open('/verif/MANIFEST.json'))
ids=[c['property_id'] for c in m['checks']]+[n['property_id'] for n in m.get('not_applicable',[])]
allp=[json.loads(l)['id'] for l in open('/verif/properties.jsonl')]
print('unaccounted:', [p for p in allp if p not in ids])
PY
