#!/bin/sh
# validates MANIFEST.json and every evidence file against the given schemas
python3-vt - <<'PY'
import json,jsonschema,glob,sys
jsonschema.validate(json.load(open('/verif/MANIFEST.json')), json.load(open('/root/.vp/MANIFEST.schema.json')))
print('manifest ok')
s=json.load(open('/root/.vp/EVIDENCE.schema.json'))
for f in sorted(glob.glob('/verif/evidence/*.json')):
    jsonschema.validate(json.load(open(f)), s); print('ok', f)
m=json.load(open('/verif/MANIFEST.json'))
ids=[c['property_id'] for c in m['checks']]+[n['property_id'] for n in m.get('not_applicable',[])]
allp=[json.loads(l)['id'] for l in open('/verif/properties.jsonl')]
print('unaccounted:', [p for p in allp if p not in ids])
import subprocess
log=subprocess.check_output(['git','-C','/repo','log','--format=%h %s']).decode().strip().split('\n')
hooks=set(m['hooks']['source_commits'])
odd=[l for l in log[:-1] if not (l.split(' ',1)[1].startswith('fix:') or l.split(' ',1)[0] in hooks)]
print('repo commits that are neither a listed hook commit nor a fix:', odd)
fixed=[json.loads(l) for l in open('/verif/known-findings.jsonl') if l.strip()]
ids=set(l.split(' ',1)[0] for l in log)
print('known-findings entries naming an unknown commit:', [f.get('commit') for f in fixed if f.get('fixed') and f.get('commit') not in ids and not any(i.startswith(f.get('commit','x')) or f.get('commit','x').startswith(i) for i in ids)])
PY
