package main

import (
	"bufio"
	"encoding/json"
	"fmt"
	"os"
	"path/filepath"
)

// agentMain is a scripted custom transfer agent (stub peer for the custom /
// standalone adapter): `check __lfs_agent`. Its behaviour per object comes
// from the JSON file named by VERIF_AGENT_SCRIPT:
// {"source": dir with <oid> files, "tmp": dir, "behave": {oid: kind}, "log": file}
func agentMain() {
	var sc struct {
		Source string            `json:"source"`
		Tmp    string            `json:"tmp"`
		Behave map[string]string `json:"behave"`
		Log    string            `json:"log"`
	}
	b, err := os.ReadFile(os.Getenv("VERIF_AGENT_SCRIPT"))
	if err != nil || json.Unmarshal(b, &sc) != nil {
		fmt.Fprintln(os.Stderr, "agent: no script")
		os.Exit(3)
	}
	logf := func(format string, a ...interface{}) {
		if sc.Log != "" {
			if f, err := os.OpenFile(sc.Log, os.O_APPEND|os.O_CREATE|os.O_WRONLY, 0644); err == nil {
				fmt.Fprintf(f, format+"\n", a...)
				f.Close()
			}
		}
	}
	in := bufio.NewReaderSize(os.Stdin, 1<<20)
	out := bufio.NewWriter(os.Stdout)
	send := func(v interface{}) {
		b, _ := json.Marshal(v)
		out.Write(b)
		out.WriteByte('\n')
		out.Flush()
	}
	n := 0
	for {
		line, err := in.ReadBytes('\n')
		if len(line) > 1 {
			var req struct {
				Event string `json:"event"`
				Oid   string `json:"oid"`
				Size  int64  `json:"size"`
				Path  string `json:"path"`
			}
			if json.Unmarshal(line, &req) != nil {
				os.Exit(4)
			}
			switch req.Event {
			case "init":
				send(map[string]interface{}{})
			case "terminate":
				return
			case "download":
				n++
				kind := sc.Behave[req.Oid]
				logf("download %s %s", req.Oid, kind)
				data, rerr := os.ReadFile(filepath.Join(sc.Source, req.Oid))
				tmp := filepath.Join(sc.Tmp, fmt.Sprintf("agent-%d-%d", os.Getpid(), n))
				fail := func(msg string) {
					send(map[string]interface{}{"event": "complete", "oid": req.Oid, "error": map[string]interface{}{"code": 2, "message": msg}})
				}
				if rerr != nil {
					fail("agent has no such object")
					continue
				}
				switch kind {
				case "", "ok":
					os.WriteFile(tmp, data, 0644)
					send(map[string]interface{}{"event": "progress", "oid": req.Oid, "bytesSoFar": len(data), "bytesSinceLast": len(data)})
					send(map[string]interface{}{"event": "complete", "oid": req.Oid, "path": tmp})
				case "bitflip":
					d := append([]byte(nil), data...)
					if len(d) > 0 {
						d[len(d)/2] ^= 4
					}
					os.WriteFile(tmp, d, 0644)
					send(map[string]interface{}{"event": "complete", "oid": req.Oid, "path": tmp})
				case "truncated":
					os.WriteFile(tmp, data[:len(data)/2], 0644)
					send(map[string]interface{}{"event": "complete", "oid": req.Oid, "path": tmp})
				case "extra":
					os.WriteFile(tmp, append(append([]byte(nil), data...), []byte("extra")...), 0644)
					send(map[string]interface{}{"event": "complete", "oid": req.Oid, "path": tmp})
				case "missing-path":
					send(map[string]interface{}{"event": "complete", "oid": req.Oid, "path": tmp + "-does-not-exist"})
				case "error":
					fail("scripted failure")
				case "wrong-oid":
					os.WriteFile(tmp, data, 0644)
					send(map[string]interface{}{"event": "complete", "oid": "0000000000000000000000000000000000000000000000000000000000000000", "path": tmp})
				case "garbage":
					out.WriteString("this is not json\n")
					out.Flush()
				case "die":
					os.Exit(9)
				}
			}
		}
		if err != nil {
			return
		}
	}
}
