package main

import (
	"bufio"
	"bytes"
	"encoding/json"
	"fmt"
	"io"
	"os"
	"os/exec"
	"path/filepath"
	"regexp"
	"strings"
	"time"

	"verif/enga"
	"verif/sim"
)

// knownFinding is one line of /verif/known-findings.jsonl.
type knownFinding struct {
	Fixed      bool   `json:"fixed,omitempty"`
	Property   string `json:"property"`
	Class      string `json:"class,omitempty"`
	NeedsFault string `json:"needs_fault,omitempty"`
	NeedsMark  string `json:"needs_mark,omitempty"`
	DetailRE   string `json:"detail_re,omitempty"`
	Commit     string `json:"commit,omitempty"`
	What       string `json:"what"`
}

func loadKnown() []knownFinding {
	var out []knownFinding
	f, err := os.Open(filepath.Join(verifDir, "known-findings.jsonl"))
	if err != nil {
		return nil
	}
	defer f.Close()
	sc := bufio.NewScanner(f)
	sc.Buffer(make([]byte, 1<<20), 1<<20)
	for sc.Scan() {
		line := strings.TrimSpace(sc.Text())
		if line == "" || strings.HasPrefix(line, "#") {
			continue
		}
		var k knownFinding
		if json.Unmarshal([]byte(line), &k) == nil && !k.Fixed {
			out = append(out, k)
		}
	}
	return out
}

func contains(xs []string, x string) bool {
	for _, y := range xs {
		if y == x {
			return true
		}
	}
	return false
}

// matchKnownDirect decides whether a violation is one of the listed known
// findings. A finding that names a necessary fault kind is confirmed by a
// counterfactual replay of the same tape with that fault kind drawn but not
// applied: the violation must disappear.
func matchKnownDirect(prop, wl string, res enga.Result, tape []uint32) string {
	for _, k := range loadKnown() {
		if k.Property != prop || k.Class != res.Class {
			continue
		}
		if k.DetailRE != "" {
			if ok, _ := regexp.MatchString(k.DetailRE, res.Detail); !ok {
				continue
			}
		}
		if k.NeedsMark != "" && !contains(res.Marks, k.NeedsMark) {
			continue
		}
		if k.NeedsFault != "" {
			if res.Class != "panic" && !contains(res.Needs, k.NeedsFault) {
				continue
			}
			cf, _, err := replayChild(wl, res.Seed, tape, map[string]bool{k.NeedsFault: true})
			if err != nil || cf.Harness != "" {
				continue
			}
			if cf.Class == res.Class {
				continue // still fails without that fault: a different violation
			}
		}
		return fmt.Sprintf("class=%s needs=%s: %s", k.Class, k.NeedsFault, k.What)
	}
	return ""
}

// triage sorts findings into known ones and new ones; new ones are minimised,
// written as replay files, verified in a fresh process and reported.
func triage(p *plan, findings []finding) (known map[string]int, reported []string, infra []string) {
	known = map[string]int{}
	minimised := map[string]int{}
	printedKnown := map[string]bool{}
	for _, f := range findings {
		tape := f.Res.Tape
		res := f.Res
		if tape == nil {
			// crash, or tape not kept: regenerate by replaying the seed
			r2, _, err := replayChild(f.Workload, f.Res.Seed, nil, nil)
			if err != nil {
				infra = append(infra, fmt.Sprintf("cannot re-run seed %d of %s: %v", f.Res.Seed, f.Workload, err))
				continue
			}
			if r2.Class == "" {
				infra = append(infra, fmt.Sprintf("non-replayable: %s seed %d reported %q (%s) but a fresh run is clean", f.Workload, f.Res.Seed, f.Res.Class, f.Res.Detail))
				continue
			}
			tape = r2.Tape
			res = r2
			res.Seed = f.Res.Seed
		}
		if kf := matchKnownDirect(p.ID, f.Workload, res, tape); kf != "" {
			known[kf]++
			if !printedKnown[kf] {
				printedKnown[kf] = true
				fmt.Printf("KNOWN-FINDING: property=%s %s\n", p.ID, kf)
			}
			continue
		}
		key := f.Workload + "/" + res.Class
		rp := &sim.Replay{Engine: "A", Property: p.ID, Workload: f.Workload, Seed: res.Seed, Tape: tape, Class: res.Class, Detail: res.Detail}
		if minimised[key] < 2 {
			minimised[key]++
			m := newMinimiser(f.Workload, res.Seed, res.Class)
			mt := m.minimise(tape)
			m.close()
			if mt != nil {
				rp.Tape = mt
				rp.Minimised = true
			}
		}
		// verify in a fresh process and take the final detail from it
		vr, _, err := replayChild(f.Workload, res.Seed, rp.Tape, nil)
		if err != nil || vr.Harness != "" {
			infra = append(infra, fmt.Sprintf("replay of %s seed %d failed: %v %s", f.Workload, res.Seed, err, vr.Harness))
			continue
		}
		if vr.Class != res.Class {
			infra = append(infra, fmt.Sprintf("non-replayable: %s seed %d class %q replayed as %q", f.Workload, res.Seed, res.Class, vr.Class))
			continue
		}
		rp.Detail = vr.Detail
		rp.Labels = vr.Labels
		rp.TraceHash = fmt.Sprintf("%x", vr.TraceHash)
		rp.Needs = strings.Join(vr.Needs, ",")
		if rp.Tape == nil {
			rp.Tape = vr.Tape
		}
		os.MkdirAll(filepath.Join(outDir, "replays"), 0755)
		path := filepath.Join(outDir, "replays", fmt.Sprintf("%s-%s-%s-%d.json", p.ID, strings.ReplaceAll(f.Workload, ".", "_"), res.Class, res.Seed))
		if err := rp.Write(path); err != nil {
			infra = append(infra, err.Error())
			continue
		}
		fmt.Printf("VIOLATION property=%s replay=%s\n", p.ID, path)
		fmt.Printf("  class=%s workload=%s seed=%d tape_len=%d minimised=%v faults=%s\n  %s\n", res.Class, f.Workload, res.Seed, len(rp.Tape), rp.Minimised, rp.Needs, vr.Detail)
		reported = append(reported, path)
		if len(reported) >= 12 {
			fmt.Printf("  (further violations not listed: %d findings in total)\n", len(findings))
			break
		}
	}
	return
}

// ---- minimiser ------------------------------------------------------------

type minimiser struct {
	wl     string
	seed   uint64
	class  string
	cmd    *exec.Cmd
	in     io.WriteCloser
	out    *bufio.Reader
	tried  int
	start  time.Time
	budget time.Duration
	max    int
}

func newMinimiser(wl string, seed uint64, class string) *minimiser {
	return &minimiser{wl: wl, seed: seed, class: class, start: time.Now(), budget: 90 * time.Second, max: 1500}
}

func (m *minimiser) startChild() error {
	sp := enga.Spec{Mode: "serve", Workload: m.wl, Seed: m.seed}
	b, _ := json.Marshal(sp)
	cmd := exec.Command(filepath.Join(scratch, "enga.test"), "-test.run", "^TestWorker$", "-test.timeout", "0", "-test.cpu", "1")
	cmd.Env = append(os.Environ(), "VERIF_SPEC="+string(b), "VERIF_SCRATCH="+filepath.Join(scratch, "min"))
	in, err := cmd.StdinPipe()
	if err != nil {
		return err
	}
	out, err := cmd.StdoutPipe()
	if err != nil {
		return err
	}
	cmd.Stderr = nil
	if err := cmd.Start(); err != nil {
		return err
	}
	m.cmd, m.in, m.out = cmd, in, bufio.NewReaderSize(out, 1<<20)
	return nil
}

func (m *minimiser) close() {
	if m.cmd != nil {
		m.in.Close()
		m.cmd.Process.Kill()
		m.cmd.Wait()
		m.cmd = nil
	}
}

// fails reports whether the candidate tape still shows the same class.
func (m *minimiser) fails(tape []uint32) bool {
	m.tried++
	if m.cmd == nil {
		if err := m.startChild(); err != nil {
			return false
		}
	}
	b, _ := json.Marshal(tape)
	if _, err := m.in.Write(append(b, '\n')); err != nil {
		m.close()
		return m.class == "panic"
	}
	for {
		line, err := m.out.ReadBytes('\n')
		if bytes.HasPrefix(line, []byte("RESULT ")) {
			var r enga.Result
			if json.Unmarshal(line[7:], &r) != nil {
				return false
			}
			return r.Harness == "" && r.Class == m.class
		}
		if err != nil {
			// child died: a panic in code under test
			m.close()
			return m.class == "panic"
		}
	}
}

func (m *minimiser) exhausted() bool {
	return m.tried >= m.max || time.Since(m.start) > m.budget
}

func (m *minimiser) minimise(tape []uint32) []uint32 {
	cur := append([]uint32(nil), tape...)
	if !m.fails(cur) {
		return nil
	}
	// 1. shortest failing prefix (the rest reads as zeros)
	lo, hi := 0, len(cur)
	for lo < hi && !m.exhausted() {
		mid := (lo + hi) / 2
		if m.fails(cur[:mid]) {
			hi = mid
		} else {
			lo = mid + 1
		}
	}
	if hi < len(cur) && m.fails(cur[:hi]) {
		cur = cur[:hi]
	}
	// 2. zero blocks
	for bs := len(cur) / 2; bs >= 1 && !m.exhausted(); bs /= 2 {
		for i := 0; i < len(cur) && !m.exhausted(); i += bs {
			end := i + bs
			if end > len(cur) {
				end = len(cur)
			}
			allZero := true
			for _, v := range cur[i:end] {
				if v != 0 {
					allZero = false
				}
			}
			if allZero {
				continue
			}
			cand := append([]uint32(nil), cur...)
			for j := i; j < end; j++ {
				cand[j] = 0
			}
			if m.fails(cand) {
				cur = cand
			}
		}
	}
	// 3. delete single entries (shifts the rest) and lower values
	for i := 0; i < len(cur) && !m.exhausted(); i++ {
		if cur[i] == 0 {
			continue
		}
		for _, v := range []uint32{cur[i] / 2, cur[i] - 1} {
			if v >= cur[i] {
				continue
			}
			cand := append([]uint32(nil), cur...)
			cand[i] = v
			if m.fails(cand) {
				cur = cand
			}
		}
	}
	// trim trailing zeros
	n := len(cur)
	for n > 0 && cur[n-1] == 0 {
		n--
	}
	if n < len(cur) && m.fails(cur[:n]) {
		cur = cur[:n]
	}
	return cur
}

func matchRE(re, s string) bool {
	ok, _ := regexp.MatchString(re, s)
	return ok
}
