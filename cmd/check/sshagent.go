package main

import (
	"bufio"
	"crypto/sha256"
	"encoding/hex"
	"encoding/json"
	"fmt"
	"io"
	"os"
	"os/exec"
	"path/filepath"
	"sort"
	"strconv"
	"strings"
)

// sshMain is a scripted stand-in for `ssh`: `check __lfs_ssh [ssh options]
// user@host "<command>"`. git-lfs reaches it through GIT_SSH_COMMAND. It
// serves the pure SSH transfer protocol (git-lfs-transfer: version, batch,
// get-object, put-object, verify-object, quit) from a directory of objects,
// answers git-lfs-authenticate with the href of an HTTP endpoint, and execs
// the real git for git-upload-pack / git-receive-pack. Behaviour per object
// and attempt comes from the JSON file named by VERIF_SSH_SCRIPT; attempt
// counters live in files so that every connection (one process each) sees them.
type sshScript struct {
	Source  string              `json:"source"`  // server store: files named by oid
	State   string              `json:"state"`   // attempt counters
	Log     string              `json:"log"`     // one JSON line per request
	Pure    bool                `json:"pure"`    // git-lfs-transfer supported
	Href    string              `json:"href"`    // for git-lfs-authenticate
	Header  map[string]string   `json:"header"`  // for git-lfs-authenticate
	Get     map[string][]string `json:"get"`     // oid -> behaviour per attempt
	Put     map[string][]string `json:"put"`     // oid -> behaviour per attempt
	Verify  map[string][]string `json:"verify"`  // oid -> behaviour per attempt
	Batch   []string            `json:"batch"`   // behaviour per batch call
	Connect []string            `json:"connect"` // behaviour per connection
	Chunk   int                 `json:"chunk"`   // data packet payload size (0 = 32768)
	// *Faults: for objects without an entry of their own, the behaviour of the
	// first attempt is drawn from this list by the object id (later attempts: ok)
	GetFaults    []string `json:"get_faults"`
	PutFaults    []string `json:"put_faults"`
	VerifyFaults []string `json:"verify_faults"`
}

func behaviourFor(own map[string][]string, faults []string, oid string, n int) string {
	if l, ok := own[oid]; ok {
		return pick(l, n)
	}
	if len(faults) == 0 || n > 0 {
		return "ok"
	}
	h := sha256.Sum256([]byte("behaviour:" + oid))
	return faults[int(h[0])%len(faults)]
}

type sshSrv struct {
	sc  sshScript
	in  *bufio.Reader
	out *bufio.Writer
	op  string
}

func sshMain(args []string) {
	var sc sshScript
	b, err := os.ReadFile(os.Getenv("VERIF_SSH_SCRIPT"))
	if err != nil || json.Unmarshal(b, &sc) != nil {
		fmt.Fprintln(os.Stderr, "ssh stub: no script")
		os.Exit(255)
	}
	// skip options; the last argument is the remote command
	if len(args) < 2 {
		fmt.Fprintln(os.Stderr, "ssh stub: usage")
		os.Exit(255)
	}
	command := args[len(args)-1]
	s := &sshSrv{sc: sc, in: bufio.NewReaderSize(os.Stdin, 1<<17), out: bufio.NewWriterSize(os.Stdout, 1<<17)}
	s.logf(map[string]interface{}{"kind": "connect", "args": args})
	fields := strings.Fields(command)
	if len(fields) == 0 {
		os.Exit(255)
	}
	switch fields[0] {
	case "git-upload-pack", "git-receive-pack", "git-upload-archive":
		path := strings.Trim(strings.TrimSpace(strings.TrimPrefix(command, fields[0])), "'")
		cmd := exec.Command("git", strings.TrimPrefix(fields[0], "git-"), path)
		cmd.Stdin, cmd.Stdout, cmd.Stderr = os.Stdin, os.Stdout, os.Stderr
		if err := cmd.Run(); err != nil {
			os.Exit(1)
		}
		return
	case "git-lfs-authenticate":
		if sc.Href == "" {
			fmt.Fprintln(os.Stderr, "git-lfs-authenticate: not available")
			os.Exit(1)
		}
		json.NewEncoder(os.Stdout).Encode(map[string]interface{}{"href": sc.Href, "header": sc.Header})
		return
	case "git-lfs-transfer":
		if !sc.Pure {
			fmt.Fprintln(os.Stderr, "git-lfs-transfer: command not found")
			os.Exit(127)
		}
		s.op = fields[len(fields)-1]
		s.serve()
		return
	}
	fmt.Fprintln(os.Stderr, "ssh stub: unknown command "+command)
	os.Exit(127)
}

func (s *sshSrv) logf(v map[string]interface{}) {
	if s.sc.Log == "" {
		return
	}
	b, _ := json.Marshal(v)
	if f, err := os.OpenFile(s.sc.Log, os.O_APPEND|os.O_CREATE|os.O_WRONLY, 0644); err == nil {
		f.Write(append(b, '\n'))
		f.Close()
	}
}

// attempt returns how often key was seen before (and counts this time).
func (s *sshSrv) attempt(key string) int {
	os.MkdirAll(s.sc.State, 0755)
	p := filepath.Join(s.sc.State, key)
	f, err := os.OpenFile(p, os.O_APPEND|os.O_CREATE|os.O_WRONLY, 0644)
	if err != nil {
		return 0
	}
	f.Write([]byte{'x'})
	f.Close()
	st, err := os.Stat(p)
	if err != nil {
		return 0
	}
	return int(st.Size()) - 1
}

func pick(list []string, n int) string {
	if len(list) == 0 {
		return "ok"
	}
	if n >= len(list) {
		n = len(list) - 1
	}
	return list[n]
}

// ---- pkt-line ----

func (s *sshSrv) readPkt() (data []byte, kind int) { // kind: 0 flush, 1 delim, 2 data, -1 eof
	var hdr [4]byte
	if _, err := io.ReadFull(s.in, hdr[:]); err != nil {
		return nil, -1
	}
	n, err := strconv.ParseUint(string(hdr[:]), 16, 32)
	if err != nil {
		return nil, -1
	}
	if n == 0 {
		return nil, 0
	}
	if n == 1 {
		return nil, 1
	}
	if n < 4 {
		return nil, -1
	}
	buf := make([]byte, n-4)
	if _, err := io.ReadFull(s.in, buf); err != nil {
		return nil, -1
	}
	return buf, 2
}

func (s *sshSrv) text(t string) { fmt.Fprintf(s.out, "%04x%s\n", len(t)+5, t) }
func (s *sshSrv) data(b []byte) { fmt.Fprintf(s.out, "%04x", len(b)+4); s.out.Write(b) }
func (s *sshSrv) flush()        { s.out.WriteString("0000"); s.out.Flush() }
func (s *sshSrv) delim()        { s.out.WriteString("0001") }

func (s *sshSrv) status(code int, msg string) {
	s.text(fmt.Sprintf("status %d", code))
	if msg != "" {
		s.delim()
		s.text(msg)
	}
	s.flush()
}

// readRequest: command line, arguments, and (after a delimiter) payload packets.
func (s *sshSrv) readRequest() (cmd string, args []string, lines [][]byte, ok bool) {
	first := true
	seenDelim := false
	for {
		d, k := s.readPkt()
		switch k {
		case -1:
			return "", nil, nil, false
		case 0:
			return cmd, args, lines, !first
		case 1:
			seenDelim = true
		default:
			if first {
				cmd = strings.TrimSuffix(string(d), "\n")
				first = false
			} else if seenDelim {
				lines = append(lines, d)
			} else {
				args = append(args, strings.TrimSuffix(string(d), "\n"))
			}
		}
	}
}

func argOf(args []string, key string) (string, bool) {
	for _, a := range args {
		if strings.HasPrefix(a, key+"=") {
			return a[len(key)+1:], true
		}
	}
	return "", false
}

func (s *sshSrv) serve() {
	nconn := s.attempt("connect")
	switch pick(s.sc.Connect, nconn) {
	case "refuse":
		fmt.Fprintln(os.Stderr, "ssh: connect to host simhost port 22: Connection refused")
		os.Exit(255)
	case "no-version":
		s.text("locking")
		s.flush()
	default:
		s.text("version=1")
		s.flush()
	}
	for {
		cmd, args, lines, ok := s.readRequest()
		if !ok {
			return
		}
		f := strings.Fields(cmd)
		if len(f) == 0 {
			s.status(400, "empty command")
			continue
		}
		switch f[0] {
		case "version":
			if len(f) == 2 && f[1] == "1" {
				s.status(200, "")
			} else {
				s.status(400, "unknown version")
			}
		case "quit":
			s.status(200, "")
			return
		case "batch":
			s.batch(args, lines)
		case "get-object":
			if len(f) != 2 || s.op != "download" {
				s.status(400, "bad get-object")
				continue
			}
			s.getObject(f[1], args)
		case "put-object":
			if len(f) != 2 || s.op != "upload" {
				s.status(400, "bad put-object")
				continue
			}
			s.putObject(f[1], args, lines)
		case "verify-object":
			if len(f) != 2 || s.op != "upload" {
				s.status(400, "bad verify-object")
				continue
			}
			s.verifyObject(f[1], args)
		default:
			s.status(400, "unknown command")
		}
	}
}

func (s *sshSrv) stored(oid string) ([]byte, bool) {
	b, err := os.ReadFile(filepath.Join(s.sc.Source, oid))
	return b, err == nil
}

func (s *sshSrv) batch(args []string, lines [][]byte) {
	n := s.attempt("batch")
	kind := pick(s.sc.Batch, n)
	var objs []string
	for _, l := range lines {
		objs = append(objs, strings.TrimSuffix(string(l), "\n"))
	}
	s.logf(map[string]interface{}{"kind": "batch", "op": s.op, "args": args, "objects": objs, "behave": kind})
	switch kind {
	case "status500":
		s.status(500, "scripted batch failure")
		return
	case "die":
		os.Exit(9)
	}
	s.text("status 200")
	s.text("hash-algo=sha256")
	s.delim()
	for i, o := range objs {
		f := strings.Fields(o)
		if len(f) < 2 {
			continue
		}
		oid, size := f[0], f[1]
		_, have := s.stored(oid)
		if kind == "omit-last" && i == len(objs)-1 && len(objs) > 1 {
			continue
		}
		switch {
		case s.op == "download" && have:
			s.text(fmt.Sprintf("%s %s download id=obj-%s token=t%d", oid, size, oid[:8], n))
		case s.op == "download":
			s.text(fmt.Sprintf("%s %s noop", oid, size))
		case have:
			s.text(fmt.Sprintf("%s %s noop", oid, size))
		default:
			s.text(fmt.Sprintf("%s %s upload id=obj-%s token=t%d", oid, size, oid[:8], n))
			s.text(fmt.Sprintf("%s %s verify id=obj-%s token=t%d", oid, size, oid[:8], n))
		}
	}
	s.flush()
}

func (s *sshSrv) sendBody(b []byte) {
	chunk := s.sc.Chunk
	if chunk <= 0 {
		chunk = 32768
	}
	for len(b) > 0 {
		n := chunk
		if n > len(b) {
			n = len(b)
		}
		s.data(b[:n])
		b = b[n:]
	}
}

func (s *sshSrv) getObject(oid string, args []string) {
	n := s.attempt("get-" + oid)
	kind := behaviourFor(s.sc.Get, s.sc.GetFaults, oid, n)
	s.logf(map[string]interface{}{"kind": "get-object", "oid": oid, "args": args, "behave": kind, "attempt": n})
	data, have := s.stored(oid)
	if !have {
		s.status(404, "not found")
		return
	}
	body := data
	sizeArg := fmt.Sprintf("size=%d", len(data))
	switch kind {
	case "status404":
		s.status(404, "scripted: not found")
		return
	case "status500":
		s.status(500, "scripted: server error")
		return
	case "bitflip":
		body = append([]byte(nil), data...)
		if len(body) > 0 {
			body[len(body)/2] ^= 4
		}
	case "truncated":
		body = data[:len(data)/2]
	case "truncated-honest":
		body = data[:len(data)/2]
		sizeArg = fmt.Sprintf("size=%d", len(body))
	case "extra":
		body = append(append([]byte(nil), data...), []byte("extra bytes")...)
	case "empty":
		body = nil
	case "other":
		// another stored object's bytes
		ents, _ := os.ReadDir(s.sc.Source)
		var names []string
		for _, e := range ents {
			if e.Name() != oid {
				names = append(names, e.Name())
			}
		}
		sort.Strings(names)
		if len(names) > 0 {
			body, _ = os.ReadFile(filepath.Join(s.sc.Source, names[0]))
		} else {
			body = []byte("no other object")
		}
	case "no-size":
		sizeArg = ""
	case "bad-size":
		sizeArg = "size=-5"
	case "die-midstream":
		s.text("status 200")
		s.text(sizeArg)
		s.delim()
		s.sendBody(data[:len(data)/2])
		s.out.Flush()
		os.Exit(9)
	case "die":
		os.Exit(9)
	}
	s.text("status 200")
	if sizeArg != "" {
		s.text(sizeArg)
	}
	s.delim()
	s.sendBody(body)
	s.flush()
}

func (s *sshSrv) putObject(oid string, args []string, lines [][]byte) {
	n := s.attempt("put-" + oid)
	kind := behaviourFor(s.sc.Put, s.sc.PutFaults, oid, n)
	var body []byte
	for _, l := range lines {
		body = append(body, l...)
	}
	sum := sha256.Sum256(body)
	got := hex.EncodeToString(sum[:])
	s.logf(map[string]interface{}{"kind": "put-object", "oid": oid, "args": args, "behave": kind, "attempt": n, "bytes": len(body), "sha": got})
	switch kind {
	case "status500":
		s.status(500, "scripted: server error")
		return
	case "status403":
		s.status(403, "scripted: token expired")
		return
	case "status429":
		s.status(429, "scripted: slow down")
		return
	case "die":
		os.Exit(9)
	case "lost":
		s.status(200, "")
		return
	}
	if sz, ok := argOf(args, "size"); !ok || sz != strconv.Itoa(len(body)) {
		s.status(400, "size argument does not match the data")
		return
	}
	if got != oid {
		s.status(422, "content does not hash to the object id")
		return
	}
	os.MkdirAll(s.sc.Source, 0755)
	tmp := filepath.Join(s.sc.Source, fmt.Sprintf(".tmp-%d-%s", os.Getpid(), oid))
	os.WriteFile(tmp, body, 0644)
	os.Rename(tmp, filepath.Join(s.sc.Source, oid))
	s.status(200, "")
}

func (s *sshSrv) verifyObject(oid string, args []string) {
	n := s.attempt("verify-" + oid)
	kind := behaviourFor(s.sc.Verify, s.sc.VerifyFaults, oid, n)
	s.logf(map[string]interface{}{"kind": "verify-object", "oid": oid, "args": args, "behave": kind, "attempt": n})
	switch kind {
	case "status500":
		s.status(500, "scripted: server error")
		return
	case "die":
		os.Exit(9)
	}
	data, have := s.stored(oid)
	sz, _ := argOf(args, "size")
	if !have {
		s.status(404, "object not found")
		return
	}
	if sz != strconv.Itoa(len(data)) {
		s.status(409, "size mismatch")
		return
	}
	s.status(200, "")
}
