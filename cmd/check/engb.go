package main

import (
	"encoding/json"
	"fmt"
	"os"
	"os/exec"
	"path/filepath"
	"sort"
	"strings"
	"sync"
	"time"

	"verif/engb"
	"verif/sim"
)

func buildEngineB() (string, error) {
	bin := filepath.Join(scratch, "bin")
	os.MkdirAll(bin, 0755)
	cmd := exec.Command(goTool(), "build", "-tags", "verif", "-o", filepath.Join(bin, "git-lfs"), ".")
	cmd.Dir = repoDir
	out, err := cmd.CombinedOutput()
	if err != nil {
		return "", fmt.Errorf("%v\n%s", err, out)
	}
	return bin, nil
}

type bSummary struct {
	Runs       int
	Procs      int
	Hashes     []uint64
	Fired      map[string]int
	Probes     map[string]int
	Violations []engb.Result
	Workload   map[string]string
	Samples    []interface{}
	Infra      []string
	SimDays    int
	Points     int
}

func runEngineB(p *plan, tier string, base uint64, workers int, scale float64, replay string) int {
	t0 := time.Now()
	if exe, err := os.Executable(); err == nil {
		engb.AgentBinary = exe
	}
	bin, err := buildEngineB()
	if err != nil {
		fmt.Fprintf(os.Stderr, "BUILD-FAILED: %v\n", err)
		return 2
	}
	if replay != "" {
		return replayB(p, bin, replay)
	}
	if workers > 16 {
		workers = 16
	}
	sum := &bSummary{Fired: map[string]int{}, Probes: map[string]int{}, Workload: map[string]string{}}
	perStage := map[string]int{}
	var mu sync.Mutex
	for _, st := range stagesOf(p) {
		n := st.Quick
		if tier == "thorough" {
			n = st.Thorough
		}
		n = int(float64(n) * scale)
		if n < 1 {
			n = 1
		}
		var wg sync.WaitGroup
		next := 0
		for wk := 0; wk < workers; wk++ {
			wg.Add(1)
			go func(wk int) {
				defer wg.Done()
				root := filepath.Join(scratch, fmt.Sprintf("b%d", wk))
				for {
					mu.Lock()
					idx := next
					next++
					mu.Unlock()
					if idx >= n {
						return
					}
					seed := sim.Mix(base, uint64(idx))
					res := engb.RunOne(st.Workload, sim.NewTape(seed), root, bin, idx < 2, nil)
					res.Idx = idx
					mu.Lock()
					if d := os.Getenv("VERIF_DUMP"); d != "" {
						// development aid: one line per scenario, for run-to-run comparison
						if f, err := os.OpenFile(d, os.O_APPEND|os.O_CREATE|os.O_WRONLY, 0644); err == nil {
							fmt.Fprintf(f, "%s %d %d %x %d %s\n", st.Workload, idx, seed, res.TraceHash, res.Procs, res.Class)
							f.Close()
						}
					}
					sum.Runs++
					perStage[st.Workload]++
					sum.Procs += res.Procs
					sum.SimDays += res.SimDays
					sum.Points += res.Points
					for k, v := range res.Fired {
						sum.Fired[k] += v
					}
					for k, v := range res.Probes {
						sum.Probes[k] += v
					}
					if res.Nontrivial {
						sum.Hashes = append(sum.Hashes, res.TraceHash)
					}
					if res.Sample != nil && res.Class == "" && len(sum.Samples) < 2 {
						sum.Samples = append(sum.Samples, res.Sample)
					}
					if res.Harness != "" {
						sum.Infra = append(sum.Infra, fmt.Sprintf("%s seed %d: %s", st.Workload, seed, res.Harness))
					} else if res.Class != "" {
						sum.Violations = append(sum.Violations, res)
						sum.Violations[len(sum.Violations)-1].Workload = st.Workload
					}
					mu.Unlock()
				}
			}(wk)
		}
		wg.Wait()
	}
	sort.Slice(sum.Violations, func(i, j int) bool { return sum.Violations[i].Idx < sum.Violations[j].Idx })
	known := map[string]int{}
	var reported []string
	printedKnown := map[string]bool{}
	minimised := map[string]int{}
	for _, v := range sum.Violations {
		wl := v.Workload
		if kf := matchKnownB(p.ID, wl, bin, v); kf != "" {
			known[kf]++
			if !printedKnown[kf] {
				printedKnown[kf] = true
				fmt.Printf("KNOWN-FINDING: property=%s %s\n", p.ID, kf)
				// maintenance aid: (re)generate the committed replay of a
				// known finding after the scenario generator changed
				if os.Getenv("VERIF_SAVE_KNOWN") != "" {
					tape := v.Tape
					if mt := minimiseB(wl, bin, v); mt != nil {
						tape = mt
					}
					vr := engb.RunOne(wl, sim.NewReplayTape(v.Seed, tape), filepath.Join(scratch, "verify"), bin, true, nil)
					if vr.Harness == "" && vr.Class == v.Class {
						rp := &sim.Replay{Engine: "B", Property: p.ID, Workload: wl, Seed: v.Seed, Tape: tape, Class: v.Class, Detail: vr.Detail, Minimised: true, Needs: strings.Join(vr.Needs, ","), TraceHash: fmt.Sprintf("%x", vr.TraceHash)}
						path := filepath.Join(outDir, "replays", fmt.Sprintf("%s-known-%s.json", p.ID, v.Class))
						os.MkdirAll(filepath.Dir(path), 0755)
						rp.Write(path)
						fmt.Printf("  known-finding replay written to %s\n", path)
					}
				}
			}
			continue
		}
		if len(reported) >= 8 {
			continue
		}
		tape := v.Tape
		isMin := false
		if minimised[wl+v.Class] < 1 {
			minimised[wl+v.Class]++
			if mt := minimiseB(wl, bin, v); mt != nil {
				tape = mt
				isMin = true
			}
		}
		// verify in a fresh world
		vr := engb.RunOne(wl, sim.NewReplayTape(v.Seed, tape), filepath.Join(scratch, "verify"), bin, true, nil)
		if vr.Harness != "" || vr.Class != v.Class {
			sum.Infra = append(sum.Infra, fmt.Sprintf("non-replayable: %s seed %d class %q replayed as %q %s; original detail: %s", wl, v.Seed, v.Class, vr.Class, vr.Harness, v.Detail))
			continue
		}
		rp := &sim.Replay{Engine: "B", Property: p.ID, Workload: wl, Seed: v.Seed, Tape: tape, Class: v.Class, Detail: vr.Detail, Minimised: isMin, Needs: strings.Join(vr.Needs, ","), TraceHash: fmt.Sprintf("%x", vr.TraceHash)}
		if b, err := json.Marshal(vr.Sample); err == nil {
			rp.Extra = map[string]string{"history": string(b)}
		}
		os.MkdirAll(filepath.Join(outDir, "replays"), 0755)
		path := filepath.Join(outDir, "replays", fmt.Sprintf("%s-%s-%s-%d.json", p.ID, strings.ReplaceAll(wl, ".", "_"), v.Class, v.Seed))
		rp.Write(path)
		fmt.Printf("VIOLATION property=%s replay=%s\n  class=%s workload=%s seed=%d tape_len=%d minimised=%v faults=%s\n  %s\n", p.ID, path, v.Class, wl, v.Seed, len(tape), isMin, rp.Needs, vr.Detail)
		reported = append(reported, path)
	}
	wall := time.Since(t0).Seconds()
	writeEvidenceB(p, tier, base, sum, perStage, known, reported, wall)
	for _, m := range sum.Infra {
		fmt.Fprintln(os.Stderr, "INFRA:", m)
	}
	fmt.Printf("%s %s: %d scenarios (%d processes), %d distinct traces, %d violations, %d known-finding hits, %.1fs\n", p.ID, tier, sum.Runs, sum.Procs, distinct(sum.Hashes), len(reported), knownHits(known), wall)
	if len(reported) > 0 {
		return 1
	}
	if len(sum.Infra) > sum.Runs/50+2 {
		return 2
	}
	return 0
}

func matchKnownB(prop, wl, bin string, v engb.Result) string {
	for _, k := range loadKnown() {
		if k.Property != prop || k.Class != v.Class {
			continue
		}
		if k.NeedsFault != "" {
			if !contains(v.Needs, k.NeedsFault) {
				continue
			}
			cf := engb.RunOne(wl, sim.NewReplayTape(v.Seed, v.Tape), filepath.Join(scratch, "cf"), bin, false, map[string]bool{k.NeedsFault: true})
			if cf.Harness != "" || cf.Class == v.Class {
				continue
			}
		}
		if k.DetailRE != "" {
			if !matchRE(k.DetailRE, v.Detail) {
				continue
			}
		}
		return fmt.Sprintf("class=%s needs=%s: %s", k.Class, k.NeedsFault, k.What)
	}
	return ""
}

func minimiseB(wl, bin string, v engb.Result) []uint32 {
	start := time.Now()
	tried := 0
	fails := func(tape []uint32) bool {
		tried++
		r := engb.RunOne(wl, sim.NewReplayTape(v.Seed, tape), filepath.Join(scratch, "min"), bin, false, nil)
		return r.Harness == "" && r.Class == v.Class
	}
	over := func() bool { return tried > 120 || time.Since(start) > 150*time.Second }
	cur := append([]uint32(nil), v.Tape...)
	lo, hi := 0, len(cur)
	for lo < hi && !over() {
		mid := (lo + hi) / 2
		if fails(cur[:mid]) {
			hi = mid
		} else {
			lo = mid + 1
		}
	}
	if hi < len(cur) && fails(cur[:hi]) {
		cur = cur[:hi]
	}
	for bs := len(cur) / 2; bs >= 2 && !over(); bs /= 2 {
		for i := 0; i < len(cur) && !over(); i += bs {
			end := i + bs
			if end > len(cur) {
				end = len(cur)
			}
			cand := append([]uint32(nil), cur...)
			nz := false
			for j := i; j < end; j++ {
				if cand[j] != 0 {
					nz = true
				}
				cand[j] = 0
			}
			if nz && fails(cand) {
				cur = cand
			}
		}
	}
	if !fails(cur) {
		return nil
	}
	return cur
}

func replayB(p *plan, bin, path string) int {
	r, err := sim.ReadReplay(path)
	if err != nil {
		fmt.Fprintln(os.Stderr, err)
		return 2
	}
	tp := sim.NewReplayTape(r.Seed, r.Tape)
	if r.Tape == nil {
		tp = sim.NewTape(r.Seed) // a bare seed: regenerate the run
	}
	res := engb.RunOne(r.Workload, tp, filepath.Join(scratch, "replay"), bin, true, nil)
	if res.Harness != "" {
		fmt.Fprintln(os.Stderr, "harness error:", res.Harness)
		return 2
	}
	fmt.Printf("replay %s: workload=%s seed=%d class=%q\n  %s\n", path, r.Workload, r.Seed, res.Class, res.Detail)
	if b, err := json.MarshalIndent(res.Sample, "  ", " "); err == nil {
		fmt.Printf("  history: %s\n", b)
	}
	if res.Class == "" {
		fmt.Println("  no violation on this tree")
		return 0
	}
	if kf := matchKnownB(p.ID, r.Workload, bin, res); kf != "" {
		fmt.Printf("KNOWN-FINDING: property=%s %s\n", p.ID, kf)
		return 0
	}
	fmt.Printf("VIOLATION property=%s replay=%s\n", p.ID, path)
	return 1
}

func writeEvidenceB(p *plan, tier string, base uint64, sum *bSummary, perStage map[string]int, known map[string]int, reported []string, wall float64) {
	samples := sum.Samples
	if samples == nil {
		samples = []interface{}{}
	}
	cov := map[string]interface{}{
		"evaluations":         sum.Runs,
		"distinct_nontrivial": distinct(sum.Hashes),
		"rule":                p.Rule,
		"samples":             samples,
		"runs_per_stage":      perStage,
		"runs_per_hour":       int(float64(sum.Runs) / wall * 3600),
		"processes_executed":  sum.Procs,
		"faults_fired":        sum.Fired,
		"probes":              sum.Probes,
		"real_components":     p.Real,
		"stub_components":     p.Stub,
		"known_finding_hits":  known,
		"seeds":               map[string]interface{}{"base": base, "derivation": "scenario i uses splitmix(base,i) masked to 53 bits", "count": sum.Runs},
		"replays_written":     reported,
		"harness_errors":      len(sum.Infra),
	}
	if sum.SimDays > 0 {
		cov["simulated_time_days"] = sum.SimDays
	}
	if sum.Points > 0 {
		cov["crash_points_executed"] = sum.Points
	}
	ev := map[string]interface{}{
		"property_id": p.ID, "tier": tier, "seed": base, "level": p.Level, "wall_s": wall,
		"violations": len(reported), "assumptions": p.Assume, "coverage": cov,
	}
	b, _ := json.MarshalIndent(ev, "", " ")
	os.MkdirAll(filepath.Join(outDir, "evidence"), 0755)
	os.WriteFile(filepath.Join(outDir, "evidence", evName(p)+".json"), b, 0644)
}
