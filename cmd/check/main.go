// Command check is the orchestrator: ./check <property> [--tier quick|thorough]
// [--replay file]. It rebuilds the engines from /repo's working tree, fans out
// worker processes, triages violations (known findings, minimisation, replay
// verification), writes evidence/<id>.json and sets the exit code
// (0 held, 1 violation, 2 infrastructure trouble).
package main

import (
	"bytes"
	"encoding/json"
	"flag"
	"fmt"
	"os"
	"os/exec"
	"path/filepath"
	"runtime"
	"sort"
	"strconv"
	"strings"
	"sync"
	"time"

	"verif/enga"
	"verif/sim"
)

const defaultBase = 20261001

type stage struct {
	Workload string
	Quick    int // runs
	Thorough int
}

type plan struct {
	// Extra: a second part of the same check on the other engine; its
	// evidence is merged into the property's evidence file.
	Extra *plan
	// EvName: evidence file base name when it differs from the property id
	EvName string
	ID     string
	Engine string // A or B
	Level  string
	Stages []stage
	Rule   string
	Real   []string
	Stub   []string
	Assume []string
}

var verifDir string

// repoDir is the tree the engines are built from: /repo, unless VERIF_REPO
// names a scratch copy (used to evaluate seeded changes without touching
// /repo); outDir receives evidence and replays (VERIF_OUT, default /verif).
var repoDir = "/repo"
var outDir string
var scratch string

func main() {
	if len(os.Args) < 2 {
		fmt.Fprintln(os.Stderr, "usage: check <property-id> [--tier quick|thorough] [--replay file] [--workers n]")
		os.Exit(2)
	}
	id := os.Args[1]
	if id == "__lfs_agent" {
		agentMain()
		return
	}
	if id == "__lfs_ssh" {
		sshMain(os.Args[2:])
		return
	}
	fs := flag.NewFlagSet("check", flag.ExitOnError)
	tier := fs.String("tier", os.Getenv("VERIF_TIER"), "quick or thorough")
	replay := fs.String("replay", "", "replay file")
	workers := fs.Int("workers", runtime.NumCPU(), "worker processes")
	scale := fs.Float64("scale", 1, "multiply run counts")
	selftest := fs.String("selftest", "", "determinism: run the first N indices twice at different GOMAXPROCS")
	fs.Parse(os.Args[2:])
	if *tier == "" {
		*tier = "quick"
	}
	if *tier != "quick" && *tier != "thorough" {
		die("bad tier %q", *tier)
	}
	wd, _ := os.Getwd()
	verifDir = wd
	if _, err := os.Stat(filepath.Join(verifDir, "properties.jsonl")); err != nil {
		exe, _ := os.Executable()
		verifDir = filepath.Dir(filepath.Dir(exe))
	}
	setEnv()
	if d := os.Getenv("VERIF_REPO"); d != "" {
		repoDir = d
	}
	os.Setenv("VERIF_SCHEMA_DIR", filepath.Join(repoDir, "docs/api/schemas"))
	outDir = verifDir
	if d := os.Getenv("VERIF_OUT"); d != "" {
		outDir = d
		os.MkdirAll(outDir, 0755)
	}
	scratch = os.Getenv("VERIF_SCRATCH")
	if scratch == "" {
		base := "/dev/shm"
		if st, err := os.Stat(base); err != nil || !st.IsDir() {
			base = os.TempDir()
		}
		scratch = filepath.Join(base, fmt.Sprintf("verif-%s-%d", id, os.Getpid()))
	}
	os.MkdirAll(scratch, 0755)
	code := 2
	defer func() {
		os.RemoveAll(scratch)
		os.Exit(code)
	}()
	base := uint64(defaultBase)
	if v := os.Getenv("VERIF_SEED"); v != "" {
		n, err := strconv.ParseUint(v, 10, 64)
		if err != nil {
			fmt.Fprintf(os.Stderr, "bad VERIF_SEED %q\n", v)
			return
		}
		base = n
	}
	p := plans[id]
	if p == nil {
		fmt.Fprintf(os.Stderr, "no check for %s (claimed: %s)\n", id, strings.Join(planIDs(), " "))
		return
	}
	if *replay != "" {
		// a replay file names its engine
		if r, err := sim.ReadReplay(*replay); err == nil && p.Extra != nil && r.Engine == p.Extra.Engine {
			p = p.Extra
			p.ID = id
		}
	}
	if p.Extra != nil && *replay == "" && *selftest == "" {
		code = runBoth(p, *tier, base, *workers, *scale)
		return
	}
	if p.Engine == "B" {
		code = runEngineB(p, *tier, base, *workers, *scale, *replay)
		return
	}
	if err := buildEngineA(); err != nil {
		fmt.Fprintf(os.Stderr, "BUILD-FAILED: %v\n", err)
		return
	}
	if *replay != "" {
		code = replayA(p, *replay)
		return
	}
	if *selftest != "" {
		n, _ := strconv.Atoi(*selftest)
		code = selfTestA(p, base, n)
		return
	}
	code = runEngineA(p, *tier, base, *workers, *scale)
}

// stagesOf: all stages of a plan, or (development aid, never used by the
// registered commands) only those named in VERIF_STAGES.
func stagesOf(p *plan) []stage {
	only := os.Getenv("VERIF_STAGES")
	if only == "" {
		return p.Stages
	}
	var out []stage
	for _, st := range p.Stages {
		for _, w := range strings.Split(only, ",") {
			if st.Workload == w {
				out = append(out, st)
			}
		}
	}
	return out
}

func die(f string, a ...interface{}) {
	fmt.Fprintf(os.Stderr, f+"\n", a...)
	os.Exit(2)
}

func setEnv() {
	os.Setenv("GOFLAGS", "-mod=mod")
	os.Setenv("GOPROXY", "off")
	os.Setenv("GOSUMDB", "off")
	os.Setenv("GOTOOLCHAIN", "local")
	os.Setenv("LC_ALL", "C")
	os.Setenv("TZ", "UTC")
}

func goTool() string {
	if p, err := exec.LookPath("go1.26.8"); err == nil {
		return p
	}
	return "/opt/veriftools/go1.26.8/bin/go"
}

func planIDs() []string {
	var ids []string
	for k := range plans {
		ids = append(ids, k)
	}
	sort.Strings(ids)
	return ids
}

func buildEngineA() error {
	// go.sum follows the repo's
	sum, _ := os.ReadFile(filepath.Join(repoDir, "go.sum"))
	args := []string{"test", "-c", "-tags", "verif", "-o", filepath.Join(scratch, "enga.test")}
	if repoDir == "/repo" {
		if sum != nil {
			os.WriteFile(filepath.Join(verifDir, "go.sum"), sum, 0644)
		}
	} else {
		mod, err := os.ReadFile(filepath.Join(verifDir, "go.mod"))
		if err != nil {
			return err
		}
		alt := strings.Replace(string(mod), "=> /repo", "=> "+repoDir, 1)
		os.WriteFile(filepath.Join(scratch, "alt.mod"), []byte(alt), 0644)
		os.WriteFile(filepath.Join(scratch, "alt.sum"), sum, 0644)
		args = append(args, "-modfile="+filepath.Join(scratch, "alt.mod"))
	}
	cmd := exec.Command(goTool(), append(args, "./enga")...)
	cmd.Dir = verifDir
	out, err := cmd.CombinedOutput()
	if err != nil {
		return fmt.Errorf("%v\n%s", err, out)
	}
	return nil
}

// ---- engine A fan-out ---------------------------------------------------

type crash struct {
	Idx    int
	Seed   uint64
	Stderr string
}

type workerOut struct {
	sum     enga.Summary
	crashes []crash
	infra   []string
}

func runWorkerA(wl string, base uint64, from, count, stride, wid, samples int, log bool) workerOut {
	var wo workerOut
	wo.sum.Fired = map[string]int{}
	wo.sum.Probes = map[string]int{}
	if log {
		wo.sum.Digest = map[string]uint64{}
	}
	k0 := 0
	for k0 < count {
		out := filepath.Join(scratch, fmt.Sprintf("w%d.out", wid))
		side := filepath.Join(scratch, fmt.Sprintf("w%d.side", wid))
		os.Remove(out)
		os.Remove(side)
		sp := enga.Spec{Mode: "batch", Workload: wl, Base: base, From: from + k0*stride, Count: count - k0, Stride: stride, Out: out, Side: side, Samples: samples, Log: log}
		b, _ := json.Marshal(sp)
		cmd := exec.Command(filepath.Join(scratch, "enga.test"), "-test.run", "^TestWorker$", "-test.timeout", "0", "-test.cpu", "1")
		cmd.Env = append(os.Environ(), "VERIF_SPEC="+string(b), "VERIF_SCRATCH="+filepath.Join(scratch, fmt.Sprintf("w%d", wid)))
		if gm := os.Getenv("VERIF_GOMAXPROCS"); gm != "" {
			cmd.Args[len(cmd.Args)-1] = gm
		}
		var stderr bytes.Buffer
		cmd.Stderr = &stderr
		cmd.Stdout = nil
		err := cmd.Run()
		var part enga.Summary
		if b, rerr := os.ReadFile(out); rerr == nil {
			json.Unmarshal(b, &part)
		}
		mergeSummary(&wo.sum, &part)
		if err == nil {
			break
		}
		// child died: attribute to the run named in the side file
		var sd struct {
			Idx  int    `json:"idx"`
			Seed uint64 `json:"seed"`
			K    int    `json:"k"`
		}
		sb, rerr := os.ReadFile(side)
		if rerr != nil || json.Unmarshal(sb, &sd) != nil {
			wo.infra = append(wo.infra, fmt.Sprintf("worker %d died without side file: %v: %s", wid, err, tail(stderr.String(), 800)))
			break
		}
		wo.crashes = append(wo.crashes, crash{Idx: sd.Idx, Seed: sd.Seed, Stderr: stderr.String()})
		// runs between the last flush and the crash are not counted (conservative)
		k0 += sd.K + 1
	}
	return wo
}

func tail(s string, n int) string {
	if len(s) > n {
		return s[len(s)-n:]
	}
	return s
}

func mergeSummary(dst, src *enga.Summary) {
	dst.Runs += src.Runs
	dst.Steps += src.Steps
	dst.SimMs += src.SimMs
	if src.MaxSimMs > dst.MaxSimMs {
		dst.MaxSimMs = src.MaxSimMs
	}
	dst.Hashes = append(dst.Hashes, src.Hashes...)
	dst.SchedHash = append(dst.SchedHash, src.SchedHash...)
	for k, v := range src.Fired {
		dst.Fired[k] += v
	}
	for k, v := range src.Probes {
		dst.Probes[k] += v
	}
	dst.Violations = append(dst.Violations, src.Violations...)
	dst.Harness = append(dst.Harness, src.Harness...)
	if len(dst.Samples) < 3 {
		dst.Samples = append(dst.Samples, src.Samples...)
	}
	for k, v := range src.Digest {
		if dst.Digest != nil {
			dst.Digest[k] = v
		}
	}
}

type finding struct {
	Workload string
	Res      enga.Result
	Crash    bool
}

func runEngineA(p *plan, tier string, base uint64, workers int, scale float64) int {
	t0 := time.Now()
	total := enga.Summary{Fired: map[string]int{}, Probes: map[string]int{}}
	var findings []finding
	var infra []string
	perStage := map[string]int{}
	for _, st := range stagesOf(p) {
		n := st.Quick
		if tier == "thorough" {
			n = st.Thorough
		}
		n = int(float64(n) * scale)
		if n < 1 {
			n = 1
		}
		var wg sync.WaitGroup
		outs := make([]workerOut, workers)
		for w := 0; w < workers; w++ {
			cnt := n / workers
			if w < n%workers {
				cnt++
			}
			if cnt == 0 {
				continue
			}
			wg.Add(1)
			go func(w, cnt int) {
				defer wg.Done()
				samples := 0
				if w == 0 {
					samples = 2
				}
				outs[w] = runWorkerA(st.Workload, base, w, cnt, workers, w, samples, false)
			}(w, cnt)
		}
		wg.Wait()
		for _, wo := range outs {
			mergeSummary(&total, &wo.sum)
			perStage[st.Workload] += wo.sum.Runs
			infra = append(infra, wo.infra...)
			for _, v := range wo.sum.Violations {
				findings = append(findings, finding{Workload: st.Workload, Res: v})
			}
			for _, h := range wo.sum.Harness {
				infra = append(infra, fmt.Sprintf("harness error in %s seed %d: %s", st.Workload, h.Seed, h.Harness))
			}
			for _, c := range wo.crashes {
				findings = append(findings, finding{Workload: st.Workload, Crash: true, Res: enga.Result{Idx: c.Idx, Seed: c.Seed, Class: "panic", Detail: panicLine(c.Stderr)}})
				perStage[st.Workload]++
				total.Runs++
			}
		}
	}
	sort.Slice(findings, func(i, j int) bool {
		if findings[i].Workload != findings[j].Workload {
			return findings[i].Workload < findings[j].Workload
		}
		return findings[i].Res.Idx < findings[j].Res.Idx
	})
	known, reported, tinfra := triage(p, findings)
	infra = append(infra, tinfra...)
	wall := time.Since(t0).Seconds()
	writeEvidenceA(p, tier, base, &total, perStage, known, reported, wall)
	for _, m := range infra {
		fmt.Fprintln(os.Stderr, "INFRA:", m)
	}
	fmt.Printf("%s %s: %d runs, %d distinct non-trivial traces, %d violations, %d known-finding hits, %.1fs\n", p.ID, tier, total.Runs, distinct(total.Hashes), len(reported), knownHits(known), wall)
	if len(reported) > 0 {
		return 1
	}
	if len(infra) > 0 {
		return 2
	}
	return 0
}

func knownHits(k map[string]int) int {
	n := 0
	for _, v := range k {
		n += v
	}
	return n
}

func distinct(h []uint64) int {
	m := map[uint64]struct{}{}
	for _, x := range h {
		m[x] = struct{}{}
	}
	return len(m)
}

func panicLine(stderr string) string {
	i := strings.Index(stderr, "panic: ")
	if i < 0 {
		i = strings.Index(stderr, "fatal error: ")
	}
	if i < 0 {
		return "worker process died: " + tail(stderr, 300)
	}
	s := stderr[i:]
	lines := strings.Split(s, "\n")
	var keep []string
	keep = append(keep, lines[0])
	for _, l := range lines[1:] {
		if strings.HasPrefix(l, "github.com/git-lfs/git-lfs") {
			keep = append(keep, strings.TrimSpace(l))
			if len(keep) >= 4 {
				break
			}
		}
	}
	return strings.Join(keep, " <- ")
}

// ---- evidence -----------------------------------------------------------

func writeEvidenceA(p *plan, tier string, base uint64, sum *enga.Summary, perStage map[string]int, known map[string]int, reported []string, wall float64) {
	ev := map[string]interface{}{
		"property_id": p.ID,
		"tier":        tier,
		"seed":        base,
		"level":       p.Level,
		"wall_s":      wall,
		"violations":  len(reported),
		"assumptions": p.Assume,
	}
	samples := sum.Samples
	if len(samples) > 3 {
		samples = samples[:3]
	}
	if samples == nil {
		samples = []interface{}{}
	}
	cov := map[string]interface{}{
		"evaluations":            sum.Runs,
		"distinct_nontrivial":    distinct(sum.Hashes),
		"rule":                   p.Rule,
		"samples":                samples,
		"runs_per_stage":         perStage,
		"runs_per_hour":          int(float64(sum.Runs) / wall * 3600),
		"scheduler_steps":        sum.Steps,
		"distinct_interleavings": distinct(sum.SchedHash),
		"simulated_time_s":       map[string]interface{}{"sum": sum.SimMs / 1000, "max_per_run": sum.MaxSimMs / 1000},
		"faults_fired":           sum.Fired,
		"probes":                 sum.Probes,
		"real_components":        p.Real,
		"stub_components":        p.Stub,
		"known_finding_hits":     known,
		"seeds":                  map[string]interface{}{"base": base, "derivation": "run i uses splitmix(base,i) masked to 53 bits", "count": sum.Runs},
		"replays_written":        reported,
	}
	ev["coverage"] = cov
	b, _ := json.MarshalIndent(ev, "", " ")
	os.MkdirAll(filepath.Join(outDir, "evidence"), 0755)
	os.WriteFile(filepath.Join(outDir, "evidence", evName(p)+".json"), b, 0644)
}

func evName(p *plan) string {
	if p.EvName != "" {
		return p.EvName
	}
	return p.ID
}

// ---- replay / serve children ----------------------------------------------

func replayChild(wl string, seed uint64, tape []uint32, suppress map[string]bool) (enga.Result, string, error) {
	out := filepath.Join(scratch, fmt.Sprintf("replay-%d.out", time.Now().UnixNano()))
	defer os.Remove(out)
	side := out + ".tape"
	defer os.Remove(side)
	sp := enga.Spec{Mode: "replay", Workload: wl, Seed: seed, Tape: tape, Out: out, Suppress: suppress, Side: side}
	b, _ := json.Marshal(sp)
	cmd := exec.Command(filepath.Join(scratch, "enga.test"), "-test.run", "^TestWorker$", "-test.timeout", "0", "-test.cpu", "1")
	cmd.Env = append(os.Environ(), "VERIF_SPEC="+string(b), "VERIF_SCRATCH="+filepath.Join(scratch, "replay"))
	var stderr bytes.Buffer
	cmd.Stderr = &stderr
	err := cmd.Run()
	var res enga.Result
	if err != nil {
		res.Seed = seed
		res.Class = "panic"
		res.Detail = panicLine(stderr.String())
		if tb, terr := os.ReadFile(side); terr == nil {
			for i := 0; i+4 <= len(tb); i += 4 {
				res.Tape = append(res.Tape, uint32(tb[i])|uint32(tb[i+1])<<8|uint32(tb[i+2])<<16|uint32(tb[i+3])<<24)
			}
		}
		return res, stderr.String(), nil
	}
	rb, rerr := os.ReadFile(out)
	if rerr != nil {
		return res, stderr.String(), rerr
	}
	if jerr := json.Unmarshal(rb, &res); jerr != nil {
		return res, stderr.String(), jerr
	}
	return res, stderr.String(), nil
}

func replayA(p *plan, path string) int {
	r, err := sim.ReadReplay(path)
	if err != nil {
		fmt.Fprintln(os.Stderr, err)
		return 2
	}
	res, _, err := replayChild(r.Workload, r.Seed, r.Tape, nil)
	if err != nil {
		fmt.Fprintln(os.Stderr, "replay failed:", err)
		return 2
	}
	if res.Harness != "" {
		fmt.Fprintln(os.Stderr, "harness error:", res.Harness)
		return 2
	}
	fmt.Printf("replay %s: workload=%s seed=%d class=%q\n  %s\n", path, r.Workload, r.Seed, res.Class, res.Detail)
	if len(res.Trace) > 0 {
		fmt.Printf("  schedule (%d steps): %s\n", len(res.Trace), strings.Join(res.Trace, " | "))
	}
	if res.Class == "" {
		fmt.Println("  no violation on this tree")
		return 0
	}
	if res.Class != r.Class {
		fmt.Printf("  note: recorded class was %q\n", r.Class)
	}
	if kf := matchKnownDirect(p.ID, r.Workload, res, r.Tape); kf != "" {
		fmt.Printf("KNOWN-FINDING: property=%s %s\n", p.ID, kf)
		return 0
	}
	fmt.Printf("VIOLATION property=%s replay=%s\n", p.ID, path)
	return 1
}

// selfTestA runs the first n indices of every stage three times (GOMAXPROCS
// 1, 4, 16) and compares per-run digests.
func selfTestA(p *plan, base uint64, n int) int {
	bad := 0
	for _, st := range stagesOf(p) {
		var digests []map[string]uint64
		for _, gm := range []string{"1", "4", "16", "1"} {
			os.Setenv("VERIF_GOMAXPROCS", gm)
			var wg sync.WaitGroup
			workers := 8
			outs := make([]workerOut, workers)
			for w := 0; w < workers; w++ {
				wg.Add(1)
				go func(w int) {
					defer wg.Done()
					cnt := n / workers
					outs[w] = runWorkerA(st.Workload, base, w, cnt, workers, w+100*len(digests), 0, true)
				}(w)
			}
			wg.Wait()
			d := map[string]uint64{}
			for _, wo := range outs {
				for k, v := range wo.sum.Digest {
					d[k] = v
				}
				for _, c := range wo.crashes {
					d[fmt.Sprint(c.Idx)] = 0xdead
				}
			}
			digests = append(digests, d)
		}
		os.Unsetenv("VERIF_GOMAXPROCS")
		for k, v := range digests[0] {
			for i := 1; i < len(digests); i++ {
				if digests[i][k] != v {
					fmt.Printf("NONDETERMINISM workload=%s idx=%s seed=%d run0=%x run%d=%x\n", st.Workload, k, seedOf(base, k), v, i, digests[i][k])
					bad++
					break
				}
			}
		}
		fmt.Printf("selftest %s: %d indices x %d executions compared, %d diverged\n", st.Workload, len(digests[0]), len(digests), bad)
	}
	if bad > 0 {
		return 2
	}
	return 0
}

func seedOf(base uint64, k string) uint64 {
	i, _ := strconv.Atoi(k)
	return sim.Mix(base, uint64(i))
}

// runBoth runs a check that has parts on both engines and merges the evidence.
func runBoth(p *plan, tier string, base uint64, workers int, scale float64) int {
	runPart := func(q *plan) int {
		if q.Engine == "B" {
			return runEngineB(q, tier, base, workers, scale, "")
		}
		if err := buildEngineA(); err != nil {
			fmt.Fprintf(os.Stderr, "BUILD-FAILED: %v\n", err)
			return 2
		}
		return runEngineA(q, tier, base, workers, scale)
	}
	main := *p
	main.Extra = nil
	c1 := runPart(&main)
	extra := *p.Extra
	realID := p.ID
	extra.ID = realID
	extra.EvName = realID + ".part2"
	c2 := runPart(&extra)
	f1 := filepath.Join(outDir, "evidence", realID+".json")
	f2 := filepath.Join(outDir, "evidence", extra.EvName+".json")
	mergeEvidence(f1, f2, realID)
	os.Remove(f2)
	if c1 == 1 || c2 == 1 {
		return 1
	}
	if c1 != 0 {
		return c1
	}
	return c2
}

func mergeEvidence(f1, f2, id string) {
	var a, b map[string]interface{}
	b1, err1 := os.ReadFile(f1)
	b2, err2 := os.ReadFile(f2)
	if err1 != nil || err2 != nil || json.Unmarshal(b1, &a) != nil || json.Unmarshal(b2, &b) != nil {
		return
	}
	ca, _ := a["coverage"].(map[string]interface{})
	cb, _ := b["coverage"].(map[string]interface{})
	if ca == nil || cb == nil {
		return
	}
	num := func(m map[string]interface{}, k string) float64 { v, _ := m[k].(float64); return v }
	ca["evaluations"] = int(num(ca, "evaluations") + num(cb, "evaluations"))
	ca["distinct_nontrivial"] = int(num(ca, "distinct_nontrivial") + num(cb, "distinct_nontrivial"))
	ca["rule"] = fmt.Sprintf("PART 1: %v PART 2: %v", ca["rule"], cb["rule"])
	sa, _ := ca["samples"].([]interface{})
	sb, _ := cb["samples"].([]interface{})
	ca["samples"] = append(sa, sb...)
	ca["part2"] = cb
	a["wall_s"] = num(a, "wall_s") + num(b, "wall_s")
	a["violations"] = int(num(a, "violations") + num(b, "violations"))
	a["property_id"] = id
	out, _ := json.MarshalIndent(a, "", " ")
	os.WriteFile(f1, out, 0644)
}
