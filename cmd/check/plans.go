package main

var realA = []string{"tq.TransferQueue", "tq.adapterBase + basic upload/download adapters", "tq.Batch / tqClient", "lfsapi.Client (auth loop, endpoints)", "lfshttp.Client (redirects, retries, error mapping)", "errors", "tools (copy, hashing, rename helpers)", "fs.Filesystem on a real per-run directory"}
var stubA = []string{"net/http connection layer (TCP, TLS, HTTP framing) replaced by the virtual internet", "LFS batch/storage server (simulated)", "goroutine scheduler choice (gate scheduler)", "wall clock (synctest fake clock)"}

var realB = []string{"git 2.39 (real)", "git-lfs binary built from /repo with -tags verif: every command, hook and filter involved", "net/http client stack of git-lfs over loopback", "real file systems of the clones and the bare remote"}
var stubB = []string{"LFS server: the simulated server on a loopback listener (fault decisions keyed by request content)", "wall-clock dates of commits are generated relative to the run's start"}

var plans = map[string]*plan{
	"C06": {
		ID: "C06", Engine: "A", Level: "exploration",
		Stages: []stage{{"C06.nofault", 6000, 150000}, {"C06", 24000, 1200000}},
		Rule:   "each run = one tape (seed): swarm config (direction, 1-6 objects, 1-12 adds incl. repeats, watchers, batch size, buffer depth, concurrency, retry settings, adapter family, fault kinds and rates, latency, scheduler mode) + every scheduling decision + every fault decision. Non-trivial = at least one fault fired or at least one scheduling decision had >=2 candidates; distinct = distinct hash of the full choice trace.",
		Real:   realA, Stub: append([]string{"scripted tq.Adapter (harness implementation of the public interface) in about half of the runs"}, stubA...),
		Assume: []string{"synctest quiescence + one release per quiescent point makes the schedule a function of the tape", "short concurrent local-code segments between hooks commute", "a hang is decided by: no runnable goroutine and no pending timer inside the bubble"},
	},
	"C15": {
		ID: "C15", Engine: "A", Level: "exploration",
		Stages: []stage{{"C15", 24000, 1200000}, {"C15.single", 8000, 300000}, {"C15.shapes", 12000, 400000}},
		Rule:   "queue workload as C06 with retry settings, Retry-After flavours, action expiry and concurrency drawn per run; oracle over the recorded history stamped with scheduler step and fake time. Non-trivial = a fault fired or a scheduling decision had >=2 candidates; distinct = distinct full choice trace.",
		Real:   realA, Stub: append([]string{"scripted tq.Adapter in about half of the runs"}, stubA...),
		Assume: []string{"client and server share the fake clock (no skew)", "bounds come from the documented meaning of lfs.transfer.maxretries / maxretrydelay, not from the implementation's constants"},
	},
	"C02": {
		ID: "C02", Engine: "A", Level: "exploration",
		Stages: []stage{{"C02.nofault", 4000, 100000}, {"C02", 20000, 1000000}},
		Rule:   "download queue with the real basic adapter: 1-4 objects (sizes 0..70000), pre-existing .part states (absent, valid prefix, garbage, longer, size-1, exact, 1 byte), garbage at the final path, per-request storage faults (status, body prefix/extra/bitflip/other object/read error, Content-Range variants, no Content-Length, bursts) up to the retry budget, under the gate scheduler. Non-trivial = a fault fired or a decision had >=2 candidates; distinct = distinct full choice trace.",
		Real:   realA, Stub: stubA,
		Assume: []string{"a download is 'reported successful' when the object is delivered on Watch(); 'failed' otherwise", "rename failures and other disk errors are outside the statement and not injected"},
		Extra: &plan{
			ID: "C02", Engine: "B", Level: "exploration",
			Stages: []stage{{"C02.custom", 100, 3000}, {"C02.file", 80, 2500}, {"C02.ssh", 100, 3000}, {"C02.two", 60, 2000}},
			Rule:   "the custom transfer adapter end to end: `git lfs fetch` of 1-4 objects through a scripted agent process (the orchestrator binary in agent mode), selected by the server's batch answer or as lfs.standalonetransferagent, concurrent or not; per object the agent answers one of ok / same-size bit flip / truncated / extra bytes / path to a missing file / error / completion for another oid / non-JSON / dies; optional stale garbage at the final location; a second fetch with a well-behaved agent. After each fetch: nothing but hash-valid content may appear at a final location, stale files survive failures, exit 0 implies everything needed is validly stored.",
			Real:   realB, Stub: []string{"the transfer agent: scripted stub process speaking the line-JSON protocol", "LFS server: simulated (batch API only; the agent moves the bytes)"},
			Assume: []string{"the ssh adapter is not covered (stated, not silently skipped)", "C02.file: downloads (fetch / pull / checkout smudge / fetch --all) from a file:// remote through git-lfs's built-in standalone agent; the remote's stored copy of each object is ok / same-size bit flip / truncated / extended / missing / another object / empty, optionally on another file system (copy instead of hard link), optional stale garbage at the final location; a second round after the remote is repaired", "C02.two: two real git-lfs processes in one repository; their interleaving is fixed at the network: the server holds the first download part of the way until the second process has finished"},
		},
	},
	"C18": {
		ID: "C18", Engine: "A", Level: "exploration",
		Stages: []stage{{"C18.nofault", 4000, 100000}, {"C18", 20000, 1000000}},
		Rule:   "conformance monitor on the simulated server over every request of the queue workload (real basic adapters, uploads and downloads, ref names with special characters, retries, expiry, 429, per-object errors, omitted/repeated/unknown/foreign entries) plus single-field corruptions of valid batch responses (every JSON position x 13 mutations, drawn per response). Non-trivial = a fault fired or a decision had >=2 candidates; distinct = distinct full choice trace.",
		Real:   realA, Stub: stubA,
		Assume: []string{"schemas are read from /repo/docs/api/schemas at run time with the repo's own gojsonschema"},
		Extra: &plan{
			ID: "C18", Engine: "B", Level: "exploration",
			Stages: []stage{{"C18.locks", 60, 2000}, {"C18.push", 60, 2000}},
			Rule:   "the same monitor over engine-B histories: the two-user lock scenarios of C16 (create, unlock, paginated list, verify requests validated against the published lock schemas and header requirements, cursors must be ones the server handed out) and the push scenarios of C03 (batch bodies against the published schema, storage and verify requests against the actions offered), with request-keyed server faults.",
			Real:   realB, Stub: stubB,
			Assume: []string{"only what the client sends is judged in this part"},
		},
	},
	"C08": {
		ID: "C08", Engine: "A", Level: "exploration",
		Stages: []stage{{"C08", 20000, 600000}, {"C08.smudge", 5000, 150000}},
		Rule:   "stream harness: input drawn from 9 pointer / look-alike classes (canonical, decoder-accepted variants, pointer+extra, padded to 1023/1024/1025, pointer prefix followed by KB..200KB, near-pointers, empty, two pointers) x a scripted reader delivering it in tape-chosen chunks (single, boundary at/around the end of the pointer-looking prefix and the 1024 sniff, fixed sizes 1..65517, random) x EOF delivered with or after the last bytes x working-tree file absent/same/shorter/longer/pointer. Every case is non-trivial; distinct = distinct choice trace.",
		Real:   []string{"commands.clean / commands.smudge (via tagged export)", "lfs.GitFilter.Clean/Smudge, lfs.DecodeFrom, pointer codec", "tools.CopyWithCallback / Spool", "real object store on disk"},
		Stub:   []string{"the byte source and sink (scripted chunked reader, in-memory writer)"},
		Assume: []string{"'well-formed pointer' = the harness's own reading of docs/spec.md (sim.RefPointer: shorter than 1024 bytes, version/ext/oid/size lines, documented leniencies); spellings the documents leave open are exempt", "zero-length reads without EOF are not generated"},
		Extra: &plan{
			ID: "C08", Engine: "B", Level: "exploration",
			Stages: []stage{{"C08.git", 80, 2500}},
			Rule:   "the clause about re-adding pointers, through Git: 1-4 files committed and pushed (optionally with a pointer extension in use), cloned with GIT_LFS_SKIP_SMUDGE=1, the pointer files touched and then handed back to Git by one of git add -A / add --renormalize / commit -a / stash / hash-object --path, with filter-process or the one-shot filters and with no, a size-preserving, a shrinking or a growing pointer extension configured in the clone. The blobs Git ends up with must be the committed pointer blobs and local storage must stay empty.",
			Real:   realB, Stub: stubB,
			Assume: []string{"fault-free server; only the clean side is judged here"},
		},
	},
	"C01": {
		ID: "C01", Engine: "A", Level: "exploration",
		Stages: []stage{{"C01", 16000, 400000}},
		Rule:   "stream harness: content of sizes 0,1,2,100,1023..1025,4096,65515..65517,131031..131033,300000,2.5MB (rare) x binary/text/CRLF/pointer-look-alike x scripted chunkings (as C08) for clean, then the produced pointer smudged back through a second scripted chunking; working-tree file absent/same/shorter/longer/pointer. Every case is non-trivial; distinct = distinct choice trace.",
		Real:   []string{"commands.clean / commands.smudge (via tagged export)", "lfs.GitFilter.Clean/Smudge, lfs.DecodeFrom, pointer codec", "tools.CopyWithCallback / Spool", "real object store on disk"},
		Stub:   []string{"the byte source and sink (scripted chunked reader, in-memory writer)"},
		Assume: []string{"part 1 covers the one-shot filter bodies in process; part 2 the same round trip through Git itself"},
		Extra: &plan{
			ID: "C01", Engine: "B", Level: "exploration",
			Stages: []stage{{"C01.git", 120, 4000}},
			Rule:   "end-to-end through the real git and git-lfs: 1-4 payloads (sizes 0,1,100,1023..1025,4096,65515..65517,131032,300000; binary/text/CRLF/pointer-look-alike) staged by git add or by `git hash-object -w --path` from stdin while the working-tree file at that path is absent/shorter/longer/a previous pointer, long-running filter-process or one-shot filters, with or without a reversible pointer extension (rot13 via lfs.extension.*); the index blob must be the pointer naming exactly what is stored and `git checkout` must return the original bytes; stash/pop round trip; a text file stored in LFS merged through `git lfs merge-driver` (merged size smaller/larger than either side) judged against `git merge-file` on the raw contents.",
			Real:   realB, Stub: []string{"no server needed (all objects local)"},
			Assume: []string{"expected merge results come from git merge-file on the raw contents"},
		},
	},
	"C10": {
		ID: "C10", Engine: "A", Level: "exploration",
		Stages: []stage{{"C10.noredirect", 3000, 80000}, {"C10", 12000, 500000}},
		Rule:   "1-3 operations (download queue, upload queue with verify, locks listing, bare batch call) through the real lfsapi/lfshttp/tq code against 7 virtual origins (api, api:8443, other, http api, storage, http other, storage:8443) that all serve the LFS API behind a redirector: per request a tape-drawn redirect (301/302/303/307/308; absolute, relative, scheme-relative or malformed Location; any target origin; optional endless loop) and 401 sequences with different challenge headers; credential source per run: recording helper, multistage helper, URL userinfo on the remote or on lfs.url, netrc, command helper, askpass, none; action hrefs on 5 origins with/without their own Authorization. Every secret is unique and tagged with the origins it was obtained for. Every run is non-trivial; distinct = distinct choice trace.",
		Real:   realA, Stub: append([]string{"credential helper (recording stub via lfsapi.Client.Credentials, or stub programs for git credential / GIT_ASKPASS)"}, stubA...),
		Assume: []string{"an http->https redirect on the same host name with default ports keeping the credential is not judged (ambiguous under the statement); counted as a probe", "https is only a URL scheme inside the bubble: no TLS"},
	},
	"C14": {
		ID: "C14", Engine: "A", Level: "exploration",
		Stages: []stage{{"C14.nofault", 3000, 80000}, {"C14", 9000, 300000}},
		Rule:   "the real filter-process command body runs in the bubble against a simulated Git peer: handshake, capabilities with/without delay, then 1-40 requests over clean(path, pointer/look-alike/content payloads), smudge(pointer of 1-5 objects that are local / on the server / missing, can-delay 0/1; non-pointer bytes), list_available_blobs (also midway) and retrieval of announced blobs in tape order; payload packetisation 1..65516 bytes per packet; download queue behind delayed smudges is the real tq under the gate scheduler (batch size, concurrency, latency, storage/batch faults drawn per run). Every run is non-trivial; distinct = distinct choice trace.",
		Real:   append([]string{"commands.filterCommand body incl. infiniteTransferBuffer/readAvailable, delayedSmudge, smudge, clean", "git.FilterProcessScanner, pktline"}, realA...), Stub: append([]string{"Git itself: a passive peer object that produces the next request when the filter reads and parses each response strictly (strict alternation as in Git's client)"}, stubA...),
		Assume: []string{"Git's client is strictly request/response, so a passive peer loses no interleavings", "the expected content is computed by the C01/C08 reference model (the one-shot bodies are checked against the same model by C01/C08)"},
	},
	"C03": {
		ID: "C03", Engine: "B", Level: "exploration",
		Stages: []stage{{"C03.nofault", 120, 3000}, {"C03.file", 100, 3000}, {"C03.ssh", 100, 3000}, {"C03", 360, 12000}},
		Rule:   "each scenario = one tape: a history in a clone (writes to LFS and non-LFS paths, duplicates, deletes, renames, branches, merges, tags, orphan branches, tracking changes, dated commits) interleaved with pushes (git push branch / --all / --tags / --force / --delete, second remote, git lfs push ref / --all), local objects lost before a push (with/without a copy on the server), allowincompletepush on/off, batch size 1/2/3/100, concurrency; server faults keyed by request (batch 5xx/429, PUT 4xx/5xx/422/stored-reply-lost, verify 4xx/5xx, per-object errors); stage C03.file runs the same histories against file:// remotes. After every push that exits 0 and moved a remote ref, git plumbing on the bare remote lists every reachable pointer blob and the server store must hold each with matching SHA-256. Every scenario is non-trivial; distinct = distinct choice trace + process outcomes.",
		Real:   realB, Stub: stubB,
		Assume: []string{"ground truth about referenced pointers comes from git rev-list/cat-file and the harness's own strict pointer reader, never from git-lfs", "stage C03.file: the remote is a file:// URL (git-lfs's own standalone agent is the 'server', its store is <remote>/lfs/objects; optionally next to a second remote that is file:// too or served over HTTP); no transfer faults exist there, the fault space is lost local objects, remote-side branch deletion with garbage collection and stale tracking refs", "damaged (as opposed to absent) local objects are outside the statement's quantifier and not generated"},
		Extra: &plan{
			ID: "C03", Engine: "A", Level: "exploration",
			Stages: []stage{{"C03.queue", 30000, 800000}},
			Rule:   "the upload half of a push from inside the process: the real transfer queue, batch client and basic upload adapter against the simulated server under the gate scheduler (1-6 objects, repeats, batch size, concurrency, retry budget, 429 / Retry-After, expired actions, PUT and verify failures, lost replies, latency, scheduler mode, every interleaving decision drawn). When the queue reports no error - the condition under which git push goes on to update the ref - every object added must be in the server's store with matching SHA-256 (objects the server itself declared unnecessary excepted).",
			Real:   realA, Stub: stubA,
			Assume: []string{"'the push succeeds' is represented by: Wait() returned and Errors() is empty"},
		},
	},
	"C04": {
		ID: "C04", Engine: "B", Level: "exploration",
		Stages: []stage{{"C04.nofault", 100, 2500}, {"C04.stall", 48, 1500}, {"C04", 260, 9000}},
		Rule:   "history built and pushed from one clone (as C03, fault-free), then a second clone (GIT_LFS_SKIP_SMUDGE on/off, any branch) and 1-6 operations: git lfs fetch [ref] with -I/-X, fetch --all, git lfs pull with -I/-X, git lfs checkout, git checkout of other refs; before each a tape-chosen subset of local objects is deleted; before pull/checkout a tape-chosen set of tracked files is edited, deleted, replaced by another valid pointer, by look-alike text, reset to the recorded pointer (also read-only); server faults keyed by request (batch/GET 4xx/5xx, per-object errors, body bit flip / prefix / extra / other object / read error). Every scenario is non-trivial; distinct = distinct choice trace + process outcomes.",
		Real:   realB, Stub: stubB,
		Assume: []string{"include/exclude patterns are limited to three simple forms whose meaning the harness computes itself", "a deleted working-tree file being recreated is not judged", "reference stores (alternates) are not covered by this check"},
	},
	"C13": {
		ID: "C13", Engine: "B", Level: "fault_enumeration",
		Stages: []stage{{"C13", 200, 4000}},
		Rule:   "per scenario (tape): a history with all objects local (writes, deletes, branches, tags; fixed tracking attributes), 0-2 tracked paths committed as raw content or as a non-canonical pointer (hash-object/update-index, bypassing the filter), a revision argument (none / HEAD / A..HEAD) and a mode (--objects / --pointers / both, --dry-run or not). Faults = damage to stored bytes: for histories with <= 6 referenced objects EVERY subset of them is damaged in turn (one damage kind per member drawn from delete / truncate / extend / bit flip / replace by another object), the store being restored from a pristine copy in between; larger histories get 24 sampled subsets. One evaluation = one scenario; crash_points_executed counts fsck runs (damage configurations). Non-trivial: every scenario; distinct = distinct choice trace + outcomes.",
		Real:   realB, Stub: []string{"no server involved; stored bytes are damaged by the harness"},
		Assume: []string{"ground truth about referenced pointers from git rev-list / ls-files / cat-file and the harness's own pointer reader", "lfs.fetchexclude is not exercised", "explicit size-0 pointers are not generated (git-lfs never stores the empty object)"},
	},
	"C05": {
		ID: "C05", Engine: "B", Level: "exploration",
		Stages: []stage{{"C05.plain", 100, 2500}, {"C05.file", 80, 2500}, {"C05", 300, 10000}},
		Rule:   "each scenario = one tape: a history with commit dates spread over 40 simulated days (writes, duplicates, deletes, renames, branches, merges, tags, orphan branches), partial pushes (branch / --all / --force) to a bare remote, then optional extra worktree (with a staged file), 0-2 stashes (plain, -u, --keep-index), staged-but-uncommitted file, detached HEAD; lfs.fetchrecentrefsdays / fetchrecentcommitsdays / pruneoffsetdays drawn from {0,1,3,7}; flags --force --recent --dry-run --verify-remote --verify-unreachable --when-unverified=continue; for --verify-remote a tape-chosen subset of objects is removed from the server; stage C05 additionally draws one of 7 spellings of the tracking attributes (incl. binary, -diff, text, eol=, custom diff driver) and one of 10 ambient user configurations that change git's diff/log output (diff.noprefix, mnemonicprefix, src/dstPrefix, renames, context, quotepath, showsignature, decorate, binary diff driver). Every scenario is non-trivial; distinct = distinct choice trace + outcomes.",
		Real:   realB, Stub: stubB,
		Assume: []string{"the must-retain set under-approximates the statement and is computed with git plumbing only (ls-tree, ls-files, raw diff-tree, rev-list), which is immune to the ambient diff configuration", "retention windows are only demanded at least 3 hours inside the boundary", "lfs.fetchexclude is not exercised", "simulated time is carried by commit dates relative to the run's start (40 days per scenario)"},
	},
	"C16": {
		ID: "C16", Engine: "B", Level: "exploration",
		Stages: []stage{{"C16.nofault", 80, 2000}, {"C16", 240, 8000}},
		Rule:   "two users (two clones, identities taken by the lock server from the Authorization each sends) over lockable *.dat and non-lockable paths; 1-30 operations drawn from lock, unlock (path / --id / --force), locks / --verify / --cached / --local, edit of a held file, commit, checkout (file / branch switch), unauthorised edit+commit of a file locked by the other user, merge of the other side's pushed work, push; locksverify true/unset/false, lfs.setlockablereadonly on/off, list page size 0-3; lock-server faults keyed by request (create/unlock/list/verify 5xx and 403, failure on a later page, verify not implemented 404/501). Reference model per client: granted-via-this-client minus released-via-this-client, reset to the server's truth at each complete verifiable listing. Every scenario is non-trivial; distinct = distinct choice trace + outcomes.",
		Real:   realB, Stub: []string{"lock API + LFS server: simulated, on loopback"},
		Assume: []string{"a lock force-released by the other user is legitimately stale in the loser's view until its next verifiable listing", "non-fast-forward pushes are skipped (not this property's business)"},
	},
	"C09": {
		ID: "C09", Engine: "B", Level: "fault_enumeration",
		Stages: []stage{{"C09", 96, 2500}},
		Rule:   "per scenario (tape): one of {git add of 1-4 new files via filter-process, git add via the one-shot clean filter, git lfs fetch, git lfs pull, git checkout with smudge downloads, git lfs fsck repair of damaged objects, git lfs prune, git lfs migrate import}, object sizes up to 70 KB (several copy bursts), optional stale .part file. A counting run records every storage-mutating point reached (temp-file creation before/after, each copy burst, every rename, link, fsck move, prune unlink) across all git-lfs processes of the command; then EVERY recorded (point, n) is executed: state restored, process killed with SIGKILL at that instant, storage checked, command re-run (lists over 60 points keep all non-burst points and every third burst). One evaluation = one scenario; crash_points_executed counts kills. Non-trivial: every scenario; distinct = distinct choice trace + outcomes.",
		Real:   realB, Stub: append([]string{"SIGKILL is delivered by the process to itself at the hook (same effect on files: no user-space buffering on these paths)"}, stubB...),
		Assume: []string{"crash = SIGKILL (no power-loss semantics: no lost un-synced writes)", "concurrenttransfers=1 so that (point, n) names one instant", "only local storage is compared after the re-run (the statement's wording); working-tree leftovers are not judged"},
	},
}
