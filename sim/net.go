package sim

import (
	"bytes"
	"errors"
	"fmt"
	"io"
	"net/http"
	"os"
	"sort"
	"strconv"
	"strings"
	"sync"
	"time"
)

// Chooser is the source of fault decisions. Engine A passes the tape (key
// ignored); engine B passes a pure function of (script seed, key, attempt).
type Chooser interface {
	Choose(key string, n int, label string) int
}

// TapeChooser adapts a Tape.
type TapeChooser struct{ T *Tape }

func (c TapeChooser) Choose(key string, n int, label string) int { return c.T.Choose(n, label) }

func chBool(c Chooser, key string, num, den int, label string) bool {
	if num <= 0 {
		return false
	}
	if num >= den {
		return true
	}
	return c.Choose(key, den, label) >= den-num
}

// Resp is what a handler answers; the transport turns it into an
// *http.Response (or a transport error).
type Resp struct {
	Status int
	Header http.Header
	Body   []byte
	// NoLength: omit Content-Length (close-delimited body).
	NoLength bool
	// DeclaredLength >= 0 overrides the Content-Length value (body cut:
	// shorter than declared => io.ErrUnexpectedEOF at the end).
	DeclaredLength int64
	// ReadErrAfter >= 0: reading fails with a connection error after that
	// many bytes.
	ReadErrAfter int
	// Burst > 0: deliver the body in bursts of that many bytes.
	Burst int
	// BurstDelay: fake time between bursts.
	BurstDelay time.Duration
	// Err != nil: no response at all, the round trip fails with Err.
	Err error
	// Note is a short description of the fault applied, for the log.
	Note string
}

func NewResp(status int) *Resp {
	return &Resp{Status: status, Header: http.Header{}, DeclaredLength: -1, ReadErrAfter: -1}
}

// ReqRec is the record of one request delivered to the virtual internet.
type ReqRec struct {
	Seq    int
	Step   int
	At     time.Duration
	Issued time.Duration // when the client issued it (before request latency)
	G      string
	Method string
	Scheme string
	Host   string
	Path   string
	Query  string
	URL    string
	Header http.Header
	Body   []byte
	Status int
	Note   string
	// Kind is filled by the server: batch, download, upload, verify, locks…
	Kind string
	Oid  string
	// Delivered: the response reached the client (not lost on the way).
	Delivered bool
	// Via: request was produced by following a redirect chain.
	Redirected bool
}

// Handler serves one origin (scheme://host).
type Handler interface {
	Serve(rec *ReqRec) *Resp
}

type HandlerFunc func(rec *ReqRec) *Resp

func (f HandlerFunc) Serve(rec *ReqRec) *Resp { return f(rec) }

// Net is the virtual internet of engine A.
type Net struct {
	S     *Sched
	T     *Tape
	Hosts map[string]Handler
	Log   []*ReqRec

	// LatencyMaxMs: per-direction latency drawn in [0,LatencyMaxMs] ms.
	LatencyMaxMs int
	// DropBefore/DropAfter: probability (per 1000) that a request is lost
	// before / its reply after the server applied it.
	DropBefore, DropAfter int

	Fired map[string]int
	Debug bool
	busy  sync.Mutex
}

func NewNet(s *Sched, t *Tape) *Net {
	return &Net{S: s, T: t, Hosts: map[string]Handler{}, Fired: map[string]int{}}
}

func (n *Net) Handle(origin string, h Handler) { n.Hosts[origin] = h }

// RoundTripperFor is installed as verifhook.TransportFn.
func (n *Net) RoundTripperFor(scheme, host string) http.RoundTripper {
	return &simRT{n: n}
}

type simRT struct{ n *Net }

type netErr struct{ msg string }

func (e *netErr) Error() string   { return e.msg }
func (e *netErr) Timeout() bool   { return false }
func (e *netErr) Temporary() bool { return true }

var ErrConnReset = &netErr{"read tcp: connection reset by peer (simulated)"}
var ErrConnRefused = &netErr{"dial tcp: connection refused (simulated)"}

func (rt *simRT) RoundTrip(req *http.Request) (*http.Response, error) {
	n := rt.n
	s := n.S
	s.parkAt("rt", nil, -1, false)
	issued := time.Since(s.Start)
	if n.LatencyMaxMs > 0 {
		s.Sleep(time.Duration(n.T.Choose(n.LatencyMaxMs+1, "lat-req"))*time.Millisecond, "rt.lat")
	}
	var body []byte
	if req.Body != nil {
		b, err := io.ReadAll(req.Body)
		req.Body.Close()
		if err != nil {
			return nil, err
		}
		body = b
	}
	if !n.busy.TryLock() {
		harnessf("two requests inside the virtual internet at once")
	}
	rec := &ReqRec{
		Seq: len(n.Log), Step: s.Step, At: time.Since(s.Start), Issued: issued,
		Method: req.Method, Scheme: req.URL.Scheme, Host: req.URL.Host, Path: req.URL.Path,
		Query: req.URL.RawQuery, URL: req.URL.String(), Header: req.Header.Clone(), Body: body,
	}
	if req.URL.User != nil {
		rec.URL = req.URL.String()
	}
	s.mu.Lock()
	rec.G = s.gname[goid()]
	s.mu.Unlock()
	n.Log = append(n.Log, rec)
	var resp *Resp
	if n.DropBefore > 0 && n.T.Bool(n.DropBefore, 1000, "drop-before") {
		n.Fired["net.drop-before"]++
		resp = &Resp{Err: ErrConnRefused, Note: "drop-before"}
	} else {
		h := n.Hosts[req.URL.Scheme+"://"+req.URL.Host]
		if h == nil {
			resp = &Resp{Err: &netErr{"dial tcp: lookup " + req.URL.Host + ": no such host (simulated)"}, Note: "no-such-host"}
		} else {
			resp = h.Serve(rec)
		}
		if resp.Err == nil && n.DropAfter > 0 && n.T.Bool(n.DropAfter, 1000, "drop-after") {
			n.Fired["net.drop-after"]++
			resp = &Resp{Err: ErrConnReset, Note: resp.Note + "+drop-after"}
		}
	}
	rec.Status = resp.Status
	rec.Note = resp.Note
	if n.Debug {
		fmt.Fprintf(os.Stderr, "NET t=%v %s %s %s -> %d %s\n    req=%s\n    resp=%s\n", rec.At, rec.G, rec.Method, rec.URL, resp.Status, resp.Note, clipB(rec.Body), clipB(resp.Body))
	}
	rec.Delivered = resp.Err == nil
	n.busy.Unlock()
	if n.LatencyMaxMs > 0 {
		s.Sleep(time.Duration(n.T.Choose(n.LatencyMaxMs+1, "lat-resp"))*time.Millisecond, "rt.lat2")
	}
	if resp.Err != nil {
		return nil, resp.Err
	}
	return BuildHTTPResponse(req, resp, func(d time.Duration) { time.Sleep(d) }), nil
}

// BuildHTTPResponse turns a Resp into an *http.Response; sleep is used
// between body bursts.
func BuildHTTPResponse(req *http.Request, r *Resp, sleep func(time.Duration)) *http.Response {
	h := r.Header
	if h == nil {
		h = http.Header{}
	}
	res := &http.Response{
		Status:     fmt.Sprintf("%d %s", r.Status, http.StatusText(r.Status)),
		StatusCode: r.Status,
		Proto:      "HTTP/1.1", ProtoMajor: 1, ProtoMinor: 1,
		Header:  h,
		Request: req,
	}
	declared := int64(len(r.Body))
	if r.DeclaredLength >= 0 {
		declared = r.DeclaredLength
	}
	if r.NoLength {
		res.ContentLength = -1
	} else {
		res.ContentLength = declared
		h.Set("Content-Length", strconv.FormatInt(declared, 10))
	}
	res.Body = &simBody{data: r.Body, declared: declared, noLength: r.NoLength, errAfter: r.ReadErrAfter, burst: r.Burst, delay: r.BurstDelay, sleep: sleep}
	return res
}

type simBody struct {
	data     []byte
	pos      int
	declared int64
	noLength bool
	errAfter int
	burst    int
	delay    time.Duration
	sleep    func(time.Duration)
	closed   bool
}

func (b *simBody) Read(p []byte) (int, error) {
	if b.closed {
		return 0, errors.New("http: read on closed response body")
	}
	if len(p) == 0 {
		return 0, nil
	}
	limit := len(b.data)
	if !b.noLength && int64(limit) > b.declared {
		limit = int(b.declared) // extra bytes beyond Content-Length are never seen
	}
	if b.errAfter >= 0 && b.errAfter < limit {
		limit = b.errAfter
	}
	if b.pos >= limit {
		if b.errAfter >= 0 && b.pos >= b.errAfter {
			return 0, ErrConnReset
		}
		if !b.noLength && int64(b.pos) < b.declared {
			return 0, io.ErrUnexpectedEOF
		}
		return 0, io.EOF
	}
	n := limit - b.pos
	if n > len(p) {
		n = len(p)
	}
	if b.burst > 0 && n > b.burst {
		n = b.burst
	}
	if b.pos > 0 && b.delay > 0 && b.sleep != nil {
		b.sleep(b.delay)
	}
	copy(p, b.data[b.pos:b.pos+n])
	b.pos += n
	return n, nil
}

func (b *simBody) Close() error { b.closed = true; return nil }

// JSONResp builds a JSON response with the LFS media type.
func JSONResp(status int, body []byte) *Resp {
	r := NewResp(status)
	r.Header.Set("Content-Type", "application/vnd.git-lfs+json")
	r.Body = body
	return r
}

// FiredSummary renders fault counters deterministically.
func FiredSummary(m map[string]int) string {
	keys := make([]string, 0, len(m))
	for k := range m {
		keys = append(keys, k)
	}
	sort.Strings(keys)
	var sb strings.Builder
	for _, k := range keys {
		fmt.Fprintf(&sb, "%s=%d ", k, m[k])
	}
	return strings.TrimSpace(sb.String())
}

func clipB(b []byte) string {
	if len(b) > 700 {
		return string(b[:700]) + "…"
	}
	return string(b)
}

var _ = bytes.NewReader
