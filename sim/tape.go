// Package sim is the deterministic simulator: choice tape, gate scheduler,
// virtual internet and simulated LFS server. Everything that is not decided by
// the code under test is decided by Tape.Choose.
package sim

import (
	"encoding/json"
	"fmt"
	"hash/fnv"
	"io"
	"os"
)

// SplitMix64 is the only PRNG in the harness.
type SplitMix64 struct{ s uint64 }

func NewSplitMix(seed uint64) *SplitMix64 { return &SplitMix64{s: seed} }

func (r *SplitMix64) Next() uint64 {
	r.s += 0x9e3779b97f4a7c15
	z := r.s
	z = (z ^ (z >> 30)) * 0xbf58476d1ce4e5b9
	z = (z ^ (z >> 27)) * 0x94d049bb133111eb
	return z ^ (z >> 31)
}

// Mix derives the seed of run i of a batch from the base seed.
func Mix(base uint64, i uint64) uint64 {
	r := NewSplitMix(base ^ (i+1)*0xd1342543de82ef95)
	r.Next()
	// 53 bits: seeds survive any JSON tool unchanged.
	return r.Next() & (1<<53 - 1)
}

// Tape is the single source of choices of a run. In generate mode choices come
// from the PRNG and are recorded; in replay mode they come from a recorded
// tape, and choices beyond its end are 0 (the least eventful alternative).
type Tape struct {
	Seed    uint64
	rng     *SplitMix64
	replay  []uint32
	isRepl  bool
	Rec     []uint32
	Labels  []string
	keepLbl bool
	h       uint64
	// SchedH hashes scheduling decisions only (distinct interleavings).
	SchedH uint64
	// Overrun counts choices taken beyond the end of a replayed tape.
	Overrun int
	// Sink, when set, receives every choice as it is made (4 bytes LE), so
	// that the tape of a run that kills its process can be recovered.
	Sink io.Writer
}

func NewTape(seed uint64) *Tape {
	return &Tape{Seed: seed, rng: NewSplitMix(seed), h: 1469598103934665603, SchedH: 1469598103934665603}
}

func NewReplayTape(seed uint64, rec []uint32) *Tape {
	return &Tape{Seed: seed, replay: rec, isRepl: true, h: 1469598103934665603, SchedH: 1469598103934665603}
}

// KeepLabels makes the tape remember the label of every choice (for replay
// files and samples); off by default because it costs memory.
func (t *Tape) KeepLabels(on bool) { t.keepLbl = on }

func (t *Tape) mix(h *uint64, v uint64) {
	*h ^= v
	*h *= 1099511628211
}

// Choose returns a value in [0,n). n<=1 consumes nothing.
func (t *Tape) Choose(n int, label string) int {
	if n <= 1 {
		return 0
	}
	var v int
	if t.isRepl {
		pos := len(t.Rec)
		if pos < len(t.replay) {
			v = int(t.replay[pos]) % n
		} else {
			t.Overrun++
			v = 0
		}
	} else {
		v = int(t.rng.Next() % uint64(n))
	}
	t.Rec = append(t.Rec, uint32(v))
	if t.Sink != nil {
		t.Sink.Write([]byte{byte(v), byte(v >> 8), byte(v >> 16), byte(v >> 24)})
	}
	if t.keepLbl {
		t.Labels = append(t.Labels, label)
	}
	t.mix(&t.h, uint64(v)+uint64(n)<<32)
	return v
}

// Sched is Choose for scheduling decisions; it additionally feeds the
// interleaving hash with the name of the chosen candidate.
func (t *Tape) Sched(names []string) int {
	i := t.Choose(len(names), "sched")
	hh := fnv.New64a()
	hh.Write([]byte(names[i]))
	t.mix(&t.SchedH, hh.Sum64())
	return i
}

// Bool is true with probability num/den.
func (t *Tape) Bool(num, den int, label string) bool {
	if num <= 0 {
		return false
	}
	if num >= den {
		return true
	}
	// value 0 must mean "no": map the top num values to true.
	return t.Choose(den, label) >= den-num
}

// Range returns a value in [lo,hi].
func (t *Tape) Range(lo, hi int, label string) int {
	if hi <= lo {
		return lo
	}
	return lo + t.Choose(hi-lo+1, label)
}

// Note mixes a string into the trace hash without consuming a choice.
func (t *Tape) Note(s string) {
	hh := fnv.New64a()
	hh.Write([]byte(s))
	t.mix(&t.h, hh.Sum64())
}

func (t *Tape) Hash() uint64 { return t.h }
func (t *Tape) Len() int     { return len(t.Rec) }

// Replay is the on-disk form of one execution.
type Replay struct {
	Engine    string            `json:"engine"`
	Property  string            `json:"property"`
	Workload  string            `json:"workload"`
	Seed      uint64            `json:"seed"`
	Tape      []uint32          `json:"tape"`
	Labels    []string          `json:"labels,omitempty"`
	TraceHash string            `json:"trace_hash"`
	Class     string            `json:"violation_class"`
	Needs     string            `json:"needs_fault,omitempty"`
	Detail    string            `json:"detail"`
	Minimised bool              `json:"minimised"`
	Extra     map[string]string `json:"extra,omitempty"`
}

func (r *Replay) Write(path string) error {
	b, err := json.MarshalIndent(r, "", " ")
	if err != nil {
		return err
	}
	return os.WriteFile(path, b, 0644)
}

func ReadReplay(path string) (*Replay, error) {
	b, err := os.ReadFile(path)
	if err != nil {
		return nil, err
	}
	r := &Replay{}
	if err := json.Unmarshal(b, r); err != nil {
		return nil, fmt.Errorf("%s: %w", path, err)
	}
	return r, nil
}
