package sim

import (
	"fmt"
	"reflect"
	"runtime"
	"sort"
	"strconv"
	"strings"
	"sync"
	"testing/synctest"
	"time"

	"github.com/git-lfs/git-lfs/v3/verifhook"
)

// HarnessError is panicked when the harness itself is at fault (ambiguous
// names, nondeterminism guard). It is never reported as a violation.
type HarnessError struct{ Msg string }

func (e HarnessError) Error() string { return "harness: " + e.Msg }

func harnessf(format string, a ...interface{}) {
	panic(HarnessError{fmt.Sprintf(format, a...)})
}

type instSeen struct {
	gid int64
	seq int
	n   int
}

type park struct {
	gid      int64
	point    string
	inst     interface{}
	n        int
	wantLock bool
	gate     chan struct{}
	name     string // resolved by the scheduler
}

// Event is one record of the history the oracles read.
type Event struct {
	Step int
	G    string
	gid  int64
	Seq  int
	At   time.Duration // fake time since start of run
	Kind string
	Inst string
	inst interface{}
	Oid  string
	Args []interface{}
}

const (
	ModeUniform = iota
	ModePCT
	ModeStarve
)

// Sched is the gate scheduler of engine A: at most one goroutine is released
// between two quiescent points of the bubble.
type Sched struct {
	T *Tape

	mu       sync.Mutex
	parked   []*park
	fresh    []*park // parked since the last scheduling decision
	wake     chan struct{}
	held     map[interface{}]string
	instName map[interface{}]string
	instCnt  map[string]int
	gname    map[int64]string
	gseq     map[int64]int
	spawnCnt map[string]int
	events   []Event
	// instFirst: who first mentioned an instance in an event, and when
	// (gives unnamed instances a creation order independent of goroutine ids)
	instFirst map[interface{}]instSeen

	Step     int
	MaxSteps int
	SimCap   time.Duration
	Start    time.Time

	Mode      int
	StarveSub string
	prio      map[string]int
	pctChange map[int]bool

	mainDone bool
	active   int // harness goroutines (Go) still running
	// Phase is set by the workload to describe the public API call the
	// main goroutine is in (for hang reports).
	Phase string

	// SleepPoints: yield points at which 1ns of fake time passes after the
	// release (see DESIGN 2.2(5)).
	SleepPoints map[string]bool

	// Interleave is the number of scheduling decisions with >= 2 candidates.
	Interleave int
	// OnStep, if set, is evaluated on every quiescent state (invariants).
	OnStep func() string

	Trace    []string // names of released parks, when KeepTrace
	Keep     bool
	failure  string
	failKind string
}

func NewSched(t *Tape) *Sched {
	return &Sched{
		T:           t,
		wake:        make(chan struct{}, 1),
		held:        map[interface{}]string{},
		instName:    map[interface{}]string{},
		instCnt:     map[string]int{},
		gname:       map[int64]string{},
		gseq:        map[int64]int{},
		spawnCnt:    map[string]int{},
		instFirst:   map[interface{}]instSeen{},
		prio:        map[string]int{},
		pctChange:   map[int]bool{},
		MaxSteps:    20000,
		SimCap:      200 * time.Hour,
		SleepPoints: map[string]bool{"collect.sleep": true},
	}
}

func goid() int64 {
	var buf [64]byte
	n := runtime.Stack(buf[:], false)
	// "goroutine 123 ["
	s := buf[10:n]
	i := 0
	for i < len(s) && s[i] >= '0' && s[i] <= '9' {
		i++
	}
	id, _ := strconv.ParseInt(string(s[:i]), 10, 64)
	return id
}

// NameInst registers a readable name for an instance (queue, adapter).
func (s *Sched) NameInst(inst interface{}, name string) {
	s.mu.Lock()
	s.instName[inst] = name
	s.mu.Unlock()
}

// Install points the verifhook seams at this scheduler.
func (s *Sched) Install() {
	verifhook.YieldFn = func(point string, inst interface{}, n int) { s.parkAt(point, inst, n, false) }
	verifhook.LockFn = func(point string, inst interface{}) { s.parkAt("lock."+point, inst, -1, true) }
	verifhook.UnlockFn = func(point string, inst interface{}) {
		s.mu.Lock()
		delete(s.held, inst)
		s.mu.Unlock()
	}
	verifhook.EventFn = func(kind string, inst interface{}, oid string, a []interface{}) {
		s.Emit(kind, inst, oid, a...)
	}
}

// Uninstall clears every seam.
func Uninstall() {
	verifhook.YieldFn = nil
	verifhook.LockFn = nil
	verifhook.UnlockFn = nil
	verifhook.EventFn = nil
	verifhook.CrashFn = nil
	verifhook.TransportFn = nil
	verifhook.WrapReaderFn = nil
	verifhook.WrapWriterFn = nil
}

// Emit appends an event to the history. Safe from any goroutine.
func (s *Sched) Emit(kind string, inst interface{}, oid string, a ...interface{}) {
	g := goid()
	now := time.Since(s.Start)
	s.mu.Lock()
	s.gseq[g]++
	if inst != nil {
		if _, ok := s.instFirst[inst]; !ok {
			s.instFirst[inst] = instSeen{gid: g, seq: s.gseq[g], n: len(s.instFirst)}
		}
	}
	s.events = append(s.events, Event{Step: s.Step, gid: g, Seq: s.gseq[g], At: now, Kind: kind, inst: inst, Oid: oid, Args: a})
	s.mu.Unlock()
}

// Yield parks the calling harness goroutine at a named point.
func (s *Sched) Yield(point string) { s.parkAt(point, nil, -1, false) }

func (s *Sched) parkAt(point string, inst interface{}, n int, wantLock bool) {
	p := &park{gid: goid(), point: point, inst: inst, n: n, wantLock: wantLock, gate: make(chan struct{})}
	s.mu.Lock()
	s.parked = append(s.parked, p)
	s.fresh = append(s.fresh, p)
	s.mu.Unlock()
	select {
	case s.wake <- struct{}{}:
	default:
	}
	<-p.gate
	if s.SleepPoints[point] {
		time.Sleep(time.Nanosecond)
	}
}

// Sleep advances fake time for the calling goroutine and parks afterwards, so
// that goroutines woken by timers at the same instant are ordered by the tape.
func (s *Sched) Sleep(d time.Duration, point string) {
	if d <= 0 {
		return
	}
	time.Sleep(d)
	s.parkAt(point, nil, -1, false)
}

// Go starts a harness goroutine with a fixed logical name. It parks before
// running fn.
func (s *Sched) Go(name string, fn func()) {
	s.mu.Lock()
	s.active++
	s.mu.Unlock()
	go func() {
		g := goid()
		s.mu.Lock()
		s.gname[g] = name
		s.mu.Unlock()
		s.parkAt("start", nil, -1, false)
		fn()
		s.mu.Lock()
		s.active--
		s.mu.Unlock()
	}()
}

func typeName(inst interface{}) string {
	if inst == nil {
		return "nil"
	}
	t := reflect.TypeOf(inst)
	for t.Kind() == reflect.Ptr {
		t = t.Elem()
	}
	n := t.Name()
	switch n {
	case "TransferQueue":
		return "q"
	case "adapterBase":
		return "a"
	}
	return strings.ToLower(n)
}

// resolve gives names to the goroutines and instances first seen since the
// last decision, in an order that does not depend on arrival order.
func (s *Sched) resolve() {
	fresh := s.fresh
	s.fresh = nil
	if len(fresh) == 0 {
		return
	}
	// 1. unknown instances first seen at a goroutine's first park.
	type grp struct {
		inst interface{}
		keys []string
		minG int64
	}
	ambiguous := false
	var groups []*grp
	byInst := map[interface{}]*grp{}
	for _, p := range fresh {
		if _, named := s.gname[p.gid]; named {
			continue
		}
		if p.inst == nil {
			continue
		}
		if _, ok := s.instName[p.inst]; ok {
			continue
		}
		g := byInst[p.inst]
		if g == nil {
			g = &grp{inst: p.inst, minG: p.gid}
			byInst[p.inst] = g
			groups = append(groups, g)
		}
		if p.gid < g.minG {
			g.minG = p.gid
		}
		g.keys = append(g.keys, fmt.Sprintf("%s/%d", p.point, p.n))
	}
	for _, g := range groups {
		sort.Strings(g.keys)
	}
	sort.Slice(groups, func(i, j int) bool {
		a, b := typeName(groups[i].inst)+"|"+strings.Join(groups[i].keys, ","), typeName(groups[j].inst)+"|"+strings.Join(groups[j].keys, ",")
		return a < b
	})
	for i, g := range groups {
		if i > 0 {
			a := typeName(groups[i-1].inst) + "|" + strings.Join(groups[i-1].keys, ",")
			b := typeName(g.inst) + "|" + strings.Join(g.keys, ",")
			if a == b {
				ambiguous = true
			}
		}
	}
	if ambiguous {
		// Several new instances of one type in one interval: order them by
		// their creation events (creator's logical name, then the
		// creator's own event sequence), never by arrival or goroutine id.
		for _, g := range groups {
			if _, ok := s.instFirst[g.inst]; !ok {
				harnessf("ambiguous instance order: new %s instances without creation events in one interval", typeName(g.inst))
			}
		}
		sort.SliceStable(groups, func(i, j int) bool {
			ti, tj := typeName(groups[i].inst), typeName(groups[j].inst)
			if ti != tj {
				return ti < tj
			}
			a, b := s.instFirst[groups[i].inst], s.instFirst[groups[j].inst]
			an, bn := s.gname[a.gid], s.gname[b.gid]
			if an != bn {
				return an < bn
			}
			return a.seq < b.seq
		})
	}
	for _, g := range groups {
		tn := typeName(g.inst)
		s.instName[g.inst] = fmt.Sprintf("%s%d", tn, s.instCnt[tn])
		s.instCnt[tn]++
	}
	// 2. goroutine names.
	type newg struct {
		p   *park
		key string
	}
	var ng []newg
	for _, p := range fresh {
		if _, named := s.gname[p.gid]; named {
			continue
		}
		in := ""
		if p.inst != nil {
			in = s.instName[p.inst]
			if in == "" {
				harnessf("park %s: instance not named", p.point)
			}
		}
		key := p.point + "#" + in
		if p.n >= 0 {
			key += "/" + strconv.Itoa(p.n)
		}
		ng = append(ng, newg{p, key})
	}
	sort.Slice(ng, func(i, j int) bool { return ng[i].key < ng[j].key })
	for i, x := range ng {
		if i > 0 && ng[i-1].key == x.key {
			harnessf("ambiguous goroutine identity: two new goroutines at %s in one interval", x.key)
		}
		s.gname[x.p.gid] = fmt.Sprintf("%s@%d", x.key, s.spawnCnt[x.key])
		s.spawnCnt[x.key]++
	}
	for _, p := range fresh {
		p.name = s.gname[p.gid] + ":" + p.point
	}
}

func (s *Sched) fail(kind, msg string) {
	if s.failure == "" {
		s.failKind = kind
		s.failure = msg
	}
}

// Failure returns the scheduler-level failure (hang, step cap), if any.
func (s *Sched) Failure() (kind, msg string) { return s.failKind, s.failure }

// Run executes main as the goroutine "main" under the scheduler and returns
// when main has returned and no goroutine can make progress any more, or when
// a cap is hit. It must be called from the root goroutine of a synctest
// bubble.
func (s *Sched) Run(main func()) {
	s.Start = time.Now()
	s.Install()
	s.Go("main", func() {
		main()
		s.mu.Lock()
		s.mainDone = true
		s.mu.Unlock()
	})
	deadline := s.Start.Add(s.SimCap)
	for {
		synctest.Wait()
		s.mu.Lock()
		s.resolve()
		var cands []*park
		for _, p := range s.parked {
			if p.wantLock {
				if _, h := s.held[p.inst]; h {
					continue
				}
			}
			cands = append(cands, p)
		}
		nparked := len(s.parked)
		done := s.mainDone && s.active == 0
		s.mu.Unlock()

		if s.OnStep != nil {
			if msg := s.OnStep(); msg != "" {
				s.fail("invariant", msg)
				return
			}
		}

		if len(cands) == 0 {
			if done && nparked == 0 {
				// Nothing parked and the workload has returned: whatever
				// is left is asleep or blocked for good.
				return
			}
			left := time.Until(deadline)
			if left <= 0 {
				s.fail("hang", "simulated-time cap reached with the caller still inside "+s.Phase)
				return
			}
			tm := time.NewTimer(left)
			select {
			case <-s.wake:
				tm.Stop()
			case <-tm.C:
				s.fail("hang", fmt.Sprintf("no goroutine can run and no timer is pending (%d parked on held locks); caller blocked inside %s", nparked, s.Phase))
				return
			}
			continue
		}

		s.Step++
		if s.Step > s.MaxSteps {
			s.fail("livelock", fmt.Sprintf("step cap %d exceeded; phase=%s", s.MaxSteps, s.Phase))
			return
		}
		sort.Slice(cands, func(i, j int) bool { return cands[i].name < cands[j].name })
		for i := 1; i < len(cands); i++ {
			if cands[i].name == cands[i-1].name {
				harnessf("two goroutines parked under one name %q", cands[i].name)
			}
		}
		i := s.pick(cands)
		p := cands[i]
		s.mu.Lock()
		for k, q := range s.parked {
			if q == p {
				s.parked = append(s.parked[:k], s.parked[k+1:]...)
				break
			}
		}
		if p.wantLock {
			s.held[p.inst] = p.name
		}
		s.mu.Unlock()
		if s.Keep {
			s.Trace = append(s.Trace, p.name)
		}
		close(p.gate)
	}
}

func gOf(name string) string {
	if i := strings.LastIndex(name, ":"); i >= 0 {
		return name[:i]
	}
	return name
}

func (s *Sched) pick(cands []*park) int {
	names := make([]string, len(cands))
	for i, c := range cands {
		names[i] = c.name
	}
	if len(cands) > 1 {
		s.Interleave++
	}
	switch s.Mode {
	case ModePCT:
		// priorities per goroutine, drawn at first sight in name order.
		for _, n := range names {
			g := gOf(n)
			if _, ok := s.prio[g]; !ok {
				s.prio[g] = 1000 + s.T.Choose(1000, "prio")
			}
		}
		best := 0
		for i := range names {
			if s.prio[gOf(names[i])] > s.prio[gOf(names[best])] {
				best = i
			}
		}
		if len(cands) > 1 && s.T.Bool(1, 40, "pct-change") {
			s.prio[gOf(names[best])] = s.T.Choose(1000, "prio-low")
			best = 0
			for i := range names {
				if s.prio[gOf(names[i])] > s.prio[gOf(names[best])] {
					best = i
				}
			}
		}
		// still record the decision in the interleaving hash
		s.T.mix(&s.T.SchedH, uint64(len(names[best]))*31+uint64(best))
		s.T.Note(names[best])
		return best
	case ModeStarve:
		var idx []int
		for i, n := range names {
			if !strings.Contains(n, s.StarveSub) {
				idx = append(idx, i)
			}
		}
		if len(idx) == 0 || len(idx) == len(names) {
			return s.T.Sched(names)
		}
		sub := make([]string, len(idx))
		for k, i := range idx {
			sub[k] = names[i]
		}
		return idx[s.T.Sched(sub)]
	}
	return s.T.Sched(names)
}

// Events returns the history in canonical order.
func (s *Sched) Events() []Event {
	s.mu.Lock()
	defer s.mu.Unlock()
	ev := make([]Event, len(s.events))
	copy(ev, s.events)
	for i := range ev {
		ev[i].G = s.gname[ev[i].gid]
		if ev[i].G == "" {
			ev[i].G = "?"
		}
		if ev[i].inst != nil {
			ev[i].Inst = s.instName[ev[i].inst]
		}
	}
	sort.SliceStable(ev, func(i, j int) bool {
		if ev[i].Step != ev[j].Step {
			return ev[i].Step < ev[j].Step
		}
		if ev[i].G != ev[j].G {
			return ev[i].G < ev[j].G
		}
		return ev[i].Seq < ev[j].Seq
	})
	return ev
}

// ParkedNames lists what is parked (diagnostics).
func (s *Sched) ParkedNames() []string {
	s.mu.Lock()
	defer s.mu.Unlock()
	var out []string
	for _, p := range s.parked {
		out = append(out, p.name)
	}
	sort.Strings(out)
	return out
}
