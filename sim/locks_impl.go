package sim

import (
	"encoding/base64"
	"encoding/json"
	"fmt"
	"net/url"
	"sort"
	"strconv"
	"strings"
	"time"
)

// SimLock is one lock held on the simulated server.
type SimLock struct {
	ID       string `json:"id"`
	Path     string `json:"path"`
	LockedAt string `json:"locked_at"`
	Owner    struct {
		Name string `json:"name"`
	} `json:"owner"`
}

// LockFaults: per-1000 rates of lock API faults.
type LockFaults struct {
	Create5xx, Create403, Unlock5xx, Unlock403, List5xx, Verify5xx, Verify403 int
	// VerifyNotImplemented: every verify call answers 404 (1) or 501 (2).
	VerifyNotImplemented int
	PageSize             int // 0 = everything on one page
	// FailSecondPage: a paginated listing fails with 500 on its 2nd page
	FailSecondPage int
}

// LockEvent is the server's record of a state change (for the reference model).
type LockEvent struct {
	Kind  string // granted, released, conflict, denied, listed-verify
	User  string
	Path  string
	ID    string
	Force bool
	Seq   int
}

// Locks is the simulated lock table + API.
type Locks struct {
	F      LockFaults
	Table  map[string]*SimLock // by path
	seq    int
	Events []LockEvent
	// Problems: conformance problems of lock requests (C18)
	Problems []string
	// handed: cursors the server gave out
	handed map[string]int
	// KnownPaths, when set, is the set of paths the scenario may ask about
	KnownPaths map[string]bool
}

// NewLockTable creates a lock API implementation.
func NewLockTable(f LockFaults) (*LockTable, *Locks) {
	l := &Locks{F: f, Table: map[string]*SimLock{}}
	return &LockTable{impl: l}, l
}

// UserOf extracts the user name from a Basic Authorization header.
func UserOf(rec *ReqRec) string {
	a := rec.Header.Get("Authorization")
	parts := strings.SplitN(a, " ", 2)
	if len(parts) == 2 && strings.EqualFold(parts[0], "basic") {
		if b, err := base64.StdEncoding.DecodeString(strings.TrimSpace(parts[1])); err == nil {
			return strings.SplitN(string(b), ":", 2)[0]
		}
	}
	return ""
}

func (l *Locks) sorted() []*SimLock {
	var out []*SimLock
	for _, k := range l.Table {
		out = append(out, k)
	}
	sort.Slice(out, func(i, j int) bool {
		a, _ := strconv.Atoi(out[i].ID)
		b, _ := strconv.Atoi(out[j].ID)
		return a < b
	})
	return out
}

func (l *Locks) serve(s *LFSServer, rec *ReqRec) *Resp {
	user := UserOf(rec)
	sub := strings.TrimPrefix(rec.Path, s.APIPrefix+"/locks")
	key := "locks" + sub
	lfsMedia := "application/vnd.git-lfs+json"
	if !strings.HasPrefix(strings.ReplaceAll(rec.Header.Get("Accept"), " ", ""), lfsMedia) {
		l.Problems = append(l.Problems, fmt.Sprintf("%s %s: Accept=%q", rec.Method, rec.Path, rec.Header.Get("Accept")))
	}
	if rec.Method == "POST" && !strings.HasPrefix(strings.ReplaceAll(rec.Header.Get("Content-Type"), " ", ""), lfsMedia) {
		l.Problems = append(l.Problems, fmt.Sprintf("%s %s: Content-Type=%q", rec.Method, rec.Path, rec.Header.Get("Content-Type")))
	}
	if user == "" {
		r := JSONResp(401, errBody("credentials needed"))
		r.Header.Set("Lfs-Authenticate", `Basic realm="sim"`)
		r.Note = "locks.401"
		return r
	}
	switch {
	case sub == "" && rec.Method == "POST":
		rec.Kind = "lock-create"
		var req struct {
			Path string `json:"path"`
			Ref  *struct {
				Name string `json:"name"`
			} `json:"ref"`
		}
		if err := json.Unmarshal(rec.Body, &req); err != nil || req.Path == "" {
			l.Problems = append(l.Problems, "lock create body invalid: "+string(rec.Body))
			return JSONResp(400, errBody("bad request"))
		}
		if s.hit(key+req.Path, l.F.Create5xx, "lock.create-5xx") {
			return noted(JSONResp(500, errBody("lock server trouble")), "lock.create-500")
		}
		if s.hit(key+req.Path, l.F.Create403, "lock.create-403") {
			return noted(JSONResp(403, errBody("you may not lock")), "lock.create-403")
		}
		if ex, ok := l.Table[req.Path]; ok {
			b, _ := json.Marshal(map[string]interface{}{"lock": ex, "message": "already created lock"})
			l.Events = append(l.Events, LockEvent{Kind: "conflict", User: user, Path: req.Path, ID: ex.ID, Seq: rec.Seq})
			return noted(JSONResp(409, b), "lock.conflict")
		}
		l.seq++
		nl := &SimLock{ID: strconv.Itoa(l.seq), Path: req.Path, LockedAt: s.WallNow().UTC().Format(time.RFC3339)}
		nl.Owner.Name = user
		l.Table[req.Path] = nl
		l.Events = append(l.Events, LockEvent{Kind: "granted", User: user, Path: req.Path, ID: nl.ID, Seq: rec.Seq})
		b, _ := json.Marshal(map[string]interface{}{"lock": nl})
		return noted(JSONResp(201, b), "lock.created")
	case sub == "" && rec.Method == "GET":
		rec.Kind = "lock-list"
		if s.hit(key, l.F.List5xx, "lock.list-5xx") {
			return noted(JSONResp(500, errBody("lock server trouble")), "lock.list-500")
		}
		q := parseQuery(rec.Query)
		for k, v := range q {
			switch k {
			case "path":
				if l.KnownPaths != nil && !l.KnownPaths[v] {
					l.Problems = append(l.Problems, fmt.Sprintf("lock list asks about path %q (raw query %q), which is not a path of this repository", v, rec.Query))
				}
			case "id", "cursor", "limit", "refspec":
			default:
				l.Problems = append(l.Problems, fmt.Sprintf("lock list query has unknown parameter %q (raw query %q)", k, rec.Query))
			}
		}
		var out []*SimLock
		for _, k := range l.sorted() {
			if p, ok := q["path"]; ok && p != k.Path {
				continue
			}
			if id, ok := q["id"]; ok && id != k.ID {
				continue
			}
			out = append(out, k)
		}
		page, next, bad := l.paginate(s, key, out, q["cursor"], q["limit"])
		if bad != nil {
			return bad
		}
		resp := map[string]interface{}{"locks": page}
		if next != "" {
			resp["next_cursor"] = next
		}
		b, _ := json.Marshal(resp)
		return noted(JSONResp(200, b), "lock.list")
	case sub == "/verify" && rec.Method == "POST":
		rec.Kind = "lock-verify"
		switch l.F.VerifyNotImplemented {
		case 1:
			s.fire("lock.verify-404")
			return noted(JSONResp(404, errBody("not found")), "lock.verify-404")
		case 2:
			s.fire("lock.verify-501")
			return noted(JSONResp(501, errBody("not implemented")), "lock.verify-501")
		}
		if s.hit(key, l.F.Verify5xx, "lock.verify-5xx") {
			return noted(JSONResp(500, errBody("lock server trouble")), "lock.verify-500")
		}
		if s.hit(key, l.F.Verify403, "lock.verify-403") {
			return noted(JSONResp(403, errBody("forbidden")), "lock.verify-403")
		}
		var req struct {
			Cursor string `json:"cursor"`
			Limit  int    `json:"limit"`
		}
		json.Unmarshal(rec.Body, &req)
		lim := ""
		if req.Limit > 0 {
			lim = strconv.Itoa(req.Limit)
		}
		page, next, bad := l.paginate(s, key, l.sorted(), req.Cursor, lim)
		if bad != nil {
			return bad
		}
		ours, theirs := []*SimLock{}, []*SimLock{}
		for _, k := range page {
			if k.Owner.Name == user {
				ours = append(ours, k)
			} else {
				theirs = append(theirs, k)
			}
		}
		resp := map[string]interface{}{"ours": ours, "theirs": theirs}
		if next != "" {
			resp["next_cursor"] = next
		} else {
			l.Events = append(l.Events, LockEvent{Kind: "listed-verify", User: user, Seq: rec.Seq})
		}
		b, _ := json.Marshal(resp)
		return noted(JSONResp(200, b), "lock.verify")
	case strings.HasSuffix(sub, "/unlock") && rec.Method == "POST":
		rec.Kind = "lock-delete"
		id := strings.TrimSuffix(strings.TrimPrefix(sub, "/"), "/unlock")
		var req struct {
			Force bool `json:"force"`
		}
		json.Unmarshal(rec.Body, &req)
		if s.hit(key, l.F.Unlock5xx, "lock.unlock-5xx") {
			return noted(JSONResp(500, errBody("lock server trouble")), "lock.unlock-500")
		}
		if s.hit(key, l.F.Unlock403, "lock.unlock-403") {
			return noted(JSONResp(403, errBody("forbidden")), "lock.unlock-403")
		}
		var found *SimLock
		for _, k := range l.Table {
			if k.ID == id {
				found = k
			}
		}
		if found == nil {
			return noted(JSONResp(404, errBody("lock not found")), "lock.unlock-404")
		}
		if found.Owner.Name != user && !req.Force {
			l.Events = append(l.Events, LockEvent{Kind: "denied", User: user, Path: found.Path, ID: id, Seq: rec.Seq})
			return noted(JSONResp(403, errBody("lock is owned by "+found.Owner.Name)), "lock.unlock-not-owner")
		}
		delete(l.Table, found.Path)
		l.Events = append(l.Events, LockEvent{Kind: "released", User: user, Path: found.Path, ID: id, Force: req.Force, Seq: rec.Seq})
		b, _ := json.Marshal(map[string]interface{}{"lock": found})
		return noted(JSONResp(200, b), "lock.unlocked")
	}
	return JSONResp(404, errBody("no such lock endpoint"))
}

func noted(r *Resp, n string) *Resp { r.Note = n; return r }

func parseQuery(q string) map[string]string {
	m := map[string]string{}
	vals, err := url.ParseQuery(q)
	if err != nil {
		m["<unparsable>"] = q
		return m
	}
	for k, v := range vals {
		if len(v) > 0 {
			m[k] = v[0]
		}
	}
	return m
}

// cursorFor makes an opaque cursor that needs correct URL escaping (it
// contains '+', '/' and '=' like standard base64).
func (l *Locks) cursorFor(n int) string {
	if l.handed == nil {
		l.handed = map[string]int{}
	}
	c := fmt.Sprintf("c+/%d==", n)
	l.handed[c] = n
	return c
}

func (l *Locks) paginate(s *LFSServer, key string, all []*SimLock, cursor, limit string) (page []*SimLock, next string, bad *Resp) {
	start := 0
	if cursor != "" {
		n, ok := l.handed[cursor]
		if !ok || n < 0 || n > len(all)+1 {
			l.Problems = append(l.Problems, fmt.Sprintf("list cursor %q was never handed out by the server", cursor))
			return nil, "", JSONResp(400, errBody("bad cursor"))
		}
		if n > len(all) {
			n = len(all)
		}
		start = n
		if s.hit(key, l.F.FailSecondPage, "lock.page2-5xx") {
			return nil, "", noted(JSONResp(500, errBody("lock server trouble on a later page")), "lock.page2-500")
		}
	}
	size := l.F.PageSize
	if limit != "" {
		if n, err := strconv.Atoi(limit); err == nil && n > 0 && (size == 0 || n < size) {
			size = n
		}
	}
	end := len(all)
	if size > 0 && start+size < end {
		end = start + size
		next = l.cursorFor(end)
	}
	return all[start:end], next, nil
}
