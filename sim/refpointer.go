package sim

import (
	"bytes"
	"strings"
)

// Verdicts of RefPointer.
const (
	PtrNo     = 0 // not a pointer by the published format
	PtrYes    = 1 // a well-formed pointer (canonical, or one of the lenient forms git-lfs documents)
	PtrUnspec = 2 // the format documents do not settle it: nothing is demanded either way
)

var refVersions = map[string]bool{
	"https://git-lfs.github.com/spec/v1": true,
	"https://hawser.github.com/spec/v1":  true, // pre-release alias
	"http://git-media.io/v/2":            true, // alpha alias
}

// RefPointer is the harness's own reading of docs/spec.md: is data, as a whole,
// a pointer file? It deliberately does not call git-lfs's decoder, so that a
// change to the decoder cannot move the oracle along with it.
//
// Well-formed: shorter than 1024 bytes; after trimming surrounding white
// space, lines "key value" (LF or CRLF, blank lines ignored): version <known
// url>, then any ext-<digit>-<name> sha256:<hex> lines, then oid sha256:<64
// lower-case hex>, then size <decimal digits>; nothing else.
func RefPointer(data []byte) int {
	if len(data) >= 1024 {
		return PtrNo
	}
	body := bytes.TrimSpace(data)
	if len(body) == 0 {
		return PtrNo
	}
	unspec := false
	stage := 0 // 0 expect version, 1 expect ext or oid, 2 expect size, 3 done
	seenExt := map[byte]bool{}
	for _, raw := range strings.Split(string(body), "\n") {
		line := strings.TrimSuffix(raw, "\r")
		if line == "" {
			continue
		}
		sp := strings.IndexByte(line, ' ')
		if sp <= 0 || sp == len(line)-1 {
			return PtrNo
		}
		key, val := line[:sp], line[sp+1:]
		switch stage {
		case 0:
			if key != "version" || !refVersions[val] {
				return PtrNo
			}
			stage = 1
		case 1:
			if strings.HasPrefix(key, "ext-") {
				// ext-<digit>-<name>
				if len(key) < 7 || key[4] < '0' || key[4] > '9' || key[5] != '-' || seenExt[key[4]] {
					return PtrNo
				}
				seenExt[key[4]] = true
				switch hexVerdict(strings.TrimPrefix(val, "sha256:"), strings.HasPrefix(val, "sha256:")) {
				case PtrNo:
					return PtrNo
				case PtrUnspec:
					unspec = true
				}
				continue
			}
			if key != "oid" {
				return PtrNo
			}
			switch hexVerdict(strings.TrimPrefix(val, "sha256:"), strings.HasPrefix(val, "sha256:")) {
			case PtrNo:
				return PtrNo
			case PtrUnspec:
				unspec = true
			}
			stage = 2
		case 2:
			if key != "size" {
				return PtrNo
			}
			digits := val
			if strings.HasPrefix(digits, "+") {
				digits = digits[1:]
				unspec = true
			}
			if digits == "" || len(digits) > 19 {
				return PtrNo
			}
			for _, c := range digits {
				if c < '0' || c > '9' {
					return PtrNo
				}
			}
			if len(digits) > 1 && digits[0] == '0' {
				unspec = true
			}
			stage = 3
		default:
			return PtrNo
		}
	}
	if stage != 3 {
		return PtrNo
	}
	if unspec {
		return PtrUnspec
	}
	return PtrYes
}

func hexVerdict(h string, typed bool) int {
	if !typed || len(h) != 64 {
		return PtrNo
	}
	v := PtrYes
	for _, c := range h {
		switch {
		case c >= '0' && c <= '9', c >= 'a' && c <= 'f':
		case c >= 'A' && c <= 'F':
			v = PtrUnspec
		default:
			return PtrNo
		}
	}
	return v
}
