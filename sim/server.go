package sim

import (
	"crypto/sha256"
	"encoding/hex"
	"encoding/json"
	"fmt"
	"net/http"
	"regexp"
	"strconv"
	"strings"
	"time"
)

// Faults is the per-run swarm configuration of the simulated LFS server: a
// probability per 1000 for each fault kind (0 = kind disabled in this run).
type Faults struct {
	// batch call level
	Batch429, Batch5xx, Batch4xx, BatchBadJSON, BatchHashAlgo, BatchWrongTransfer int
	// PostRedirect: an API POST (batch, verify) is answered with a 307/308
	// to the same URL with a marker in the query; the redirected copy is
	// then served normally
	PostRedirect int
	// BatchCorrupt: one single-field corruption of an otherwise valid response
	BatchCorrupt int
	// ObjForeign: an extra entry for an object requested in an earlier batch
	ObjForeign int
	// batch per-object shapes
	ObjError, ObjOmit, ObjTwice, ObjUnknown, ObjExpired, ObjNoAction, ObjSoonExpire int
	// storage GET
	Get429, Get5xx, Get4xx, GetPrefix, GetExtra, GetFlip, GetOther, GetCut, GetNoLength, GetBurst int
	// resumed GET (Range) answers
	RangeIgnore, Range416, RangeWrongStart, RangeNoHeader, RangeBadHeader, RangeWrongSuffix int
	// storage PUT / verify
	Put429, Put5xx, Put4xx, Put422, PutLostReply, Verify5xx, Verify4xx int
	// PutNotStored: storage answers 200 but loses the bytes; only applied when
	// a verify action was offered for that object (the server must then tell
	// the truth in verify, so the client can and must notice)
	PutNotStored int
	// Retry-After flavours allowed (bit set): 1 absent, 2 seconds, 4 date, 8 garbage
	RetryAfterKinds int
	RetryAfterMax   int // seconds
}

// Any reports whether any fault kind is enabled.
func (f *Faults) Any() bool {
	b, _ := json.Marshal(f)
	var m map[string]int
	json.Unmarshal(b, &m)
	for k, v := range m {
		if k != "RetryAfterKinds" && k != "RetryAfterMax" && v > 0 {
			return true
		}
	}
	return false
}

// BatchObj mirrors the wire form of one object in a batch response.
type BatchObj struct {
	Oid           string                 `json:"oid"`
	Size          int64                  `json:"size"`
	Authenticated bool                   `json:"authenticated,omitempty"`
	Actions       map[string]*BatchAct   `json:"actions,omitempty"`
	Error         *BatchErr              `json:"error,omitempty"`
	Extra         map[string]interface{} `json:"-"`
}
type BatchAct struct {
	Href      string            `json:"href"`
	Header    map[string]string `json:"header,omitempty"`
	ExpiresIn int               `json:"expires_in,omitempty"`
	ExpiresAt string            `json:"expires_at,omitempty"`
}
type BatchErr struct {
	Code    int    `json:"code"`
	Message string `json:"message"`
}
type BatchReq struct {
	Operation string `json:"operation"`
	Objects   []struct {
		Oid  string `json:"oid"`
		Size int64  `json:"size"`
	} `json:"objects"`
	Transfers []string `json:"transfers"`
	Ref       *struct {
		Name string `json:"name"`
	} `json:"ref"`
	HashAlgo string `json:"hash_algo"`
}

// Offer is an action the server handed out; storage requests are judged
// against it.
type Offer struct {
	Token     string
	Oid       string
	Size      int64
	Rel       string // download, upload, verify
	Shape     string // normal, expired, soon
	Href      string
	Header    map[string]string
	IssuedAt  time.Duration
	ExpiresAt time.Duration // 0 = never
	BatchSeq  int
	Used      int
	UsedAt    []int // request sequence numbers that used it
	// Tainted: the response that carried this offer was corrupted on
	// purpose, so the client may not have seen it as issued.
	Tainted bool
}

// BatchRec is the server's record of one batch exchange.
type BatchRec struct {
	ReqSeq   int
	At       time.Duration
	Req      BatchReq
	Status   int
	Note     string
	Shapes   map[string]string // oid -> shape given (action, noaction, error, omit, twice, expired)
	Unknown  []string
	Transfer string
	Corrupt  string
}

// Deferral records a 429 with Retry-After the server issued.
type Deferral struct {
	ReqSeq int // index into Net.Log (-1: issued by an adapter)
	Step   int
	At     time.Duration
	Kind   string // batch, download, upload
	Oids   []string
	Until  time.Duration // 0 when no usable Retry-After was sent
	Header string
}

// LFSServer is the simulated LFS batch API + storage server shared by both
// engines. It never reads a real clock: Now is supplied by the engine.
type LFSServer struct {
	C   Chooser
	F   Faults
	Now func() time.Duration // time since start of run
	// WallNow gives the absolute (fake) time for expires_at / Retry-After dates.
	WallNow func() time.Time

	APIOrigin     string // e.g. https://api.sim
	APIPrefix     string // e.g. /repo.git/info/lfs
	StorageOrigin string // e.g. https://storage.sim

	Store map[string][]byte

	// ScriptedAdapter, when non-empty and offered by the client in
	// "transfers", is answered as the transfer to use.
	ScriptedAdapter string
	// ActionAuth adds an Authorization header to every action.
	ActionAuth func(rel, oid string) string
	// ExpiresInS > 0 adds expires_in to normal actions.
	ExpiresInS int

	Offers        map[string]*Offer
	Batches       []*BatchRec
	Deferrals     []*Deferral
	Fired         map[string]int
	tokSeq        int
	unkSeq        int
	verifyOffered map[string]bool

	// PutLog: oids stored by PUT, in order.
	PutLog []string
	// Problems found by the conformance monitor (C18).
	Problems []string

	Locks *LockTable

	// AnyOrigin: serve the API and storage paths on every origin (C10).
	AnyOrigin bool
	// Pre, when set, sees every request first; a non-nil answer is final.
	Pre func(rec *ReqRec) *Resp
	// HrefOrigin picks the origin of an action href (default StorageOrigin
	// for transfers, APIOrigin for verify).
	HrefOrigin func(rel, oid string) string
	// Storage401: storage 4xx faults may also answer 401 (an action's own
	// Authorization refused) (C18).
	Storage401 bool
	// OfferExtraHeaders: actions carry additional headers (C18).
	OfferExtraHeaders bool
	// Authenticated sets "authenticated": true on batch objects.
	Authenticated bool

	// Suppress: fault kinds that are still drawn from the chooser but not
	// applied (counterfactual runs for known-finding attribution).
	Suppress map[string]bool
}

func NewLFSServer(c Chooser, f Faults) *LFSServer {
	return &LFSServer{
		C: c, F: f,
		APIOrigin: "https://api.sim", APIPrefix: "/repo.git/info/lfs", StorageOrigin: "https://storage.sim",
		Store: map[string][]byte{}, Offers: map[string]*Offer{}, Fired: map[string]int{},
	}
}

func OidOf(b []byte) string {
	h := sha256.Sum256(b)
	return hex.EncodeToString(h[:])
}

func (s *LFSServer) fire(kind string) { s.Fired[kind]++ }

func (s *LFSServer) hit(key string, rate int, kind string) bool {
	if rate <= 0 {
		return false
	}
	if chBool(s.C, key, rate, 1000, kind) {
		if s.Suppress[kind] {
			return false
		}
		s.fire(kind)
		return true
	}
	return false
}

// Hit is hit for fault sources outside the server (scripted adapter).
func (s *LFSServer) Hit(key string, rate int, kind string) bool { return s.hit(key, rate, kind) }

func (s *LFSServer) retryAfter(key string) (hdr string, until time.Duration) {
	kinds := []int{}
	for _, k := range []int{1, 2, 4, 8} {
		if s.F.RetryAfterKinds&k != 0 {
			kinds = append(kinds, k)
		}
	}
	if len(kinds) == 0 {
		kinds = []int{2}
	}
	k := kinds[s.C.Choose(key, len(kinds), "retry-after-kind")]
	max := s.F.RetryAfterMax
	if max <= 0 {
		max = 5
	}
	secs := s.C.Choose(key, max+1, "retry-after-secs")
	switch k {
	case 1:
		s.fire("retry-after.absent")
		return "", 0
	case 2:
		s.fire("retry-after.seconds")
		return strconv.Itoa(secs), s.Now() + time.Duration(secs)*time.Second
	case 4:
		s.fire("retry-after.date")
		at := s.WallNow().Add(time.Duration(secs) * time.Second).UTC()
		// HTTP dates have second resolution: truncate, so the promise
		// the server records is the one it actually sent.
		at = at.Truncate(time.Second)
		return at.Format(http.TimeFormat), s.Now() + at.Sub(s.WallNow())
	default:
		s.fire("retry-after.garbage")
		return "soon-ish", 0
	}
}

var oidRE = regexp.MustCompile(`^[0-9a-f]{64}$`)

// Serve implements Handler for both origins.
func (s *LFSServer) Serve(rec *ReqRec) *Resp {
	origin := rec.Scheme + "://" + rec.Host
	if s.Pre != nil {
		if r := s.Pre(rec); r != nil {
			return r
		}
	}
	if s.AnyOrigin {
		switch {
		case strings.HasSuffix(rec.Path, "/objects/batch"):
			origin = s.APIOrigin
		case strings.HasPrefix(rec.Path, s.APIPrefix+"/"):
			origin = s.APIOrigin
		case strings.HasPrefix(rec.Path, "/objects/"):
			origin = s.StorageOrigin
		}
	}
	redirect := func(kind string) *Resp {
		if s.F.PostRedirect == 0 || rec.Method != "POST" || strings.Contains(rec.Query, "via=redirect") {
			return nil
		}
		key := kind + "-redirect:" + rec.Path + "|" + string(rec.Body)
		if !s.hit(key, s.F.PostRedirect, "api.redirect") {
			return nil
		}
		r := NewResp([]int{307, 308}[s.C.Choose(key, 2, "redirect-status")])
		loc := rec.Path + "?via=redirect"
		if s.C.Choose(key, 2, "redirect-absolute") == 1 {
			loc = rec.Scheme + "://" + rec.Host + loc
		}
		r.Header.Set("Location", loc)
		r.Note = "api.redirect " + loc
		return r
	}
	switch {
	case origin == s.APIOrigin && rec.Path == s.APIPrefix+"/objects/batch":
		rec.Kind = "batch"
		if r := redirect("batch"); r != nil {
			return r
		}
		return s.serveBatch(rec)
	case origin == s.APIOrigin && strings.HasPrefix(rec.Path, s.APIPrefix+"/locks"):
		rec.Kind = "locks"
		if s.Locks != nil {
			return s.Locks.Serve(s, rec)
		}
		return JSONResp(404, []byte(`{"message":"locks not implemented"}`))
	case origin == s.APIOrigin && strings.HasPrefix(rec.Path, s.APIPrefix+"/verify/"):
		rec.Kind = "verify"
		if r := redirect("verify"); r != nil {
			return r
		}
		return s.serveVerify(rec)
	case origin == s.StorageOrigin && strings.HasPrefix(rec.Path, "/objects/"):
		oid := strings.TrimPrefix(rec.Path, "/objects/")
		rec.Oid = oid
		if rec.Method == "GET" {
			rec.Kind = "download"
			return s.serveGet(rec, oid)
		}
		if rec.Method == "PUT" {
			rec.Kind = "upload"
			return s.servePut(rec, oid)
		}
	}
	rec.Kind = "other"
	return JSONResp(404, []byte(`{"message":"not found"}`))
}

func errBody(msg string) []byte {
	b, _ := json.Marshal(map[string]string{"message": msg})
	return b
}

func (s *LFSServer) newOffer(rel, oid string, size int64, batchSeq int, expired, soon bool) (*BatchAct, *Offer) {
	s.tokSeq++
	tok := fmt.Sprintf("t%d", s.tokSeq)
	o := &Offer{Token: tok, Oid: oid, Size: size, Rel: rel, IssuedAt: s.Now(), BatchSeq: batchSeq, Header: map[string]string{"X-Sim-Token": tok}}
	so, ao := s.StorageOrigin, s.APIOrigin
	if s.HrefOrigin != nil {
		if h := s.HrefOrigin(rel, oid); h != "" {
			so, ao = h, h
		}
	}
	if rel == "verify" {
		if s.verifyOffered == nil {
			s.verifyOffered = map[string]bool{}
		}
		s.verifyOffered[oid] = true
	}
	switch rel {
	case "verify":
		o.Href = ao + s.APIPrefix + "/verify/" + tok
	default:
		o.Href = so + "/objects/" + oid
	}
	if s.ActionAuth != nil {
		if a := s.ActionAuth(rel, oid); a != "" {
			o.Header["Authorization"] = a
		}
	}
	if s.OfferExtraHeaders {
		// headers the client also sets itself, offered under a spelling of
		// the server's choosing: the request must carry exactly this value
		hk := "batch/" + oid
		spell := func(name string) string {
			switch s.C.Choose(hk, 3, "header-spelling") {
			case 1:
				return strings.ToLower(name)
			case 2:
				return strings.ToUpper(name)
			}
			return name
		}
		switch rel {
		case "upload":
			if s.C.Choose(hk, 2, "offer-content-type") == 1 {
				o.Header[spell("Content-Type")] = "application/x-sim-offered"
			}
		case "download", "verify":
			if s.C.Choose(hk, 3, "offer-extra") == 1 {
				o.Header[spell("X-Sim-Extra")] = "offered-" + tok
			}
		}
	}
	act := &BatchAct{Href: o.Href, Header: o.Header}
	key := "batch/" + oid
	switch {
	case expired:
		// already expired when issued: expires_at in the past or a
		// negative expires_in
		if s.C.Choose(key, 2, "expired-form") == 0 {
			act.ExpiresAt = s.WallNow().Add(-time.Duration(1+s.C.Choose(key, 100, "expired-ago")) * time.Second).UTC().Format(time.RFC3339)
		} else {
			act.ExpiresIn = -(1 + s.C.Choose(key, 100, "expired-ago"))
		}
		o.Shape = "expired"
		o.ExpiresAt = s.Now() // unusable from the start
		if o.ExpiresAt == 0 {
			o.ExpiresAt = 1
		}
	case soon:
		secs := 1 + s.C.Choose(key, 30, "soon-secs")
		if s.C.Choose(key, 2, "soon-form") == 0 {
			act.ExpiresIn = secs
		} else {
			act.ExpiresAt = s.WallNow().Add(time.Duration(secs) * time.Second).UTC().Format(time.RFC3339Nano)
		}
		o.Shape = "soon"
		o.ExpiresAt = s.Now() + time.Duration(secs)*time.Second
	case s.ExpiresInS > 0:
		act.ExpiresIn = s.ExpiresInS
		o.ExpiresAt = s.Now() + time.Duration(s.ExpiresInS)*time.Second
	}
	s.Offers[tok] = o
	return act, o
}

func (s *LFSServer) serveBatch(rec *ReqRec) *Resp {
	br := &BatchRec{ReqSeq: rec.Seq, At: s.Now(), Shapes: map[string]string{}}
	s.Batches = append(s.Batches, br)
	if err := json.Unmarshal(rec.Body, &br.Req); err != nil {
		s.Problems = append(s.Problems, fmt.Sprintf("req#%d batch body is not JSON: %v", rec.Seq, err))
		br.Status = 400
		return JSONResp(400, errBody("bad json"))
	}
	var oids []string
	for _, o := range br.Req.Objects {
		oids = append(oids, o.Oid)
	}
	key := "batch:" + strings.Join(oids, ",")
	finish := func(r *Resp, note string) *Resp {
		br.Status = r.Status
		br.Note = note
		r.Note = note
		return r
	}
	if s.hit(key, s.F.Batch429, "batch.429") {
		hdr, until := s.retryAfter(key)
		r := JSONResp(429, errBody("rate limited"))
		if hdr != "" {
			r.Header.Set("Retry-After", hdr)
		}
		s.Deferrals = append(s.Deferrals, &Deferral{ReqSeq: rec.Seq, Step: rec.Step, At: s.Now(), Kind: "batch", Oids: oids, Until: until, Header: hdr})
		return finish(r, "batch.429 retry-after="+hdr)
	}
	if s.hit(key, s.F.Batch5xx, "batch.5xx") {
		codes := []int{500, 502, 503, 501, 507, 509}
		c := codes[s.C.Choose(key, len(codes), "batch-5xx-code")]
		return finish(JSONResp(c, errBody("server trouble")), fmt.Sprintf("batch.%d", c))
	}
	if s.hit(key, s.F.Batch4xx, "batch.4xx") {
		codes := []int{403, 404, 410, 422, 400}
		c := codes[s.C.Choose(key, len(codes), "batch-4xx-code")]
		return finish(JSONResp(c, errBody("client trouble")), fmt.Sprintf("batch.%d", c))
	}
	if s.hit(key, s.F.BatchBadJSON, "batch.badjson") {
		return finish(JSONResp(200, []byte(`{"objects":[{"oid":`)), "batch.badjson")
	}

	out := struct {
		Transfer string      `json:"transfer,omitempty"`
		Objects  []*BatchObj `json:"objects"`
		HashAlgo string      `json:"hash_algo,omitempty"`
	}{}
	out.Transfer = "basic"
	if s.ScriptedAdapter != "" {
		for _, t := range br.Req.Transfers {
			if t == s.ScriptedAdapter {
				out.Transfer = t
			}
		}
	}
	noteExtra := ""
	if s.hit(key, s.F.BatchWrongTransfer, "batch.wrongtransfer") {
		out.Transfer = "carrier-pigeon"
		noteExtra += "+wrongtransfer"
	}
	br.Transfer = out.Transfer
	switch s.C.Choose(key, 3, "hash-algo-form") {
	case 1:
		out.HashAlgo = "sha256"
	}
	if s.hit(key, s.F.BatchHashAlgo, "batch.hashalgo") {
		out.HashAlgo = "sha512"
		noteExtra += "+hashalgo"
	}

	op := br.Req.Operation
	for _, ro := range br.Req.Objects {
		okey := "batch/" + ro.Oid
		data, has := s.Store[ro.Oid]
		mk := func(expired, soon bool) *BatchObj {
			bo := &BatchObj{Oid: ro.Oid, Size: ro.Size, Actions: map[string]*BatchAct{}, Authenticated: s.Authenticated}
			if op == "download" {
				bo.Size = int64(len(data))
				a, _ := s.newOffer("download", ro.Oid, bo.Size, len(s.Batches)-1, expired, soon)
				bo.Actions["download"] = a
			} else {
				a, _ := s.newOffer("upload", ro.Oid, ro.Size, len(s.Batches)-1, expired, soon)
				bo.Actions["upload"] = a
				if s.C.Choose(okey, 2, "with-verify") == 1 {
					v, _ := s.newOffer("verify", ro.Oid, ro.Size, len(s.Batches)-1, false, false)
					bo.Actions["verify"] = v
				} else if s.verifyOffered != nil {
					delete(s.verifyOffered, ro.Oid)
				}
			}
			return bo
		}
		switch {
		case s.hit(okey, s.F.ObjOmit, "obj.omit"):
			br.Shapes[ro.Oid] = "omit"
			continue
		case s.hit(okey, s.F.ObjError, "obj.error"):
			codes := []int{404, 410, 422, 500, 507, 403}
			c := codes[s.C.Choose(okey, len(codes), "obj-error-code")]
			out.Objects = append(out.Objects, &BatchObj{Oid: ro.Oid, Size: ro.Size, Error: &BatchErr{Code: c, Message: "object trouble"}})
			br.Shapes[ro.Oid] = "error"
			continue
		case op == "download" && !has:
			out.Objects = append(out.Objects, &BatchObj{Oid: ro.Oid, Size: ro.Size, Error: &BatchErr{Code: 404, Message: "Object does not exist"}})
			br.Shapes[ro.Oid] = "error"
			continue
		case op == "upload" && has:
			out.Objects = append(out.Objects, &BatchObj{Oid: ro.Oid, Size: ro.Size})
			br.Shapes[ro.Oid] = "noaction"
			continue
		case s.hit(okey, s.F.ObjNoAction, "obj.noaction"):
			// download without an action and without an error, or an
			// upload the server claims to have already
			out.Objects = append(out.Objects, &BatchObj{Oid: ro.Oid, Size: ro.Size})
			br.Shapes[ro.Oid] = "noaction"
			continue
		}
		expired := s.hit(okey, s.F.ObjExpired, "obj.expired")
		soon := !expired && s.hit(okey, s.F.ObjSoonExpire, "obj.soonexpire")
		bo := mk(expired, soon)
		out.Objects = append(out.Objects, bo)
		br.Shapes[ro.Oid] = "action"
		if expired {
			br.Shapes[ro.Oid] = "expired"
		}
		if s.hit(okey, s.F.ObjTwice, "obj.twice") {
			out.Objects = append(out.Objects, mk(false, false))
			br.Shapes[ro.Oid] = "twice"
		}
	}
	if s.hit(key, s.F.ObjUnknown, "obj.unknown") {
		s.unkSeq++
		u := OidOf([]byte(fmt.Sprintf("unknown-%d", s.unkSeq)))
		bo := &BatchObj{Oid: u, Size: 7, Actions: map[string]*BatchAct{}}
		a, _ := s.newOffer(op, u, 7, len(s.Batches)-1, false, false)
		bo.Actions[op] = a
		pos := s.C.Choose(key, len(out.Objects)+1, "unknown-pos")
		out.Objects = append(out.Objects[:pos], append([]*BatchObj{bo}, out.Objects[pos:]...)...)
		br.Unknown = append(br.Unknown, u)
	}
	if len(s.Batches) > 1 && s.hit(key, s.F.ObjForeign, "obj.foreign") {
		// an object this client asked about in an earlier batch, but not now
		asked := map[string]bool{}
		for _, o := range br.Req.Objects {
			asked[o.Oid] = true
		}
		var cands []string
		seenC := map[string]bool{}
		for _, pb := range s.Batches[:len(s.Batches)-1] {
			for _, o := range pb.Req.Objects {
				if !asked[o.Oid] && !seenC[o.Oid] {
					seenC[o.Oid] = true
					cands = append(cands, o.Oid)
				}
			}
		}
		if len(cands) > 0 {
			u := cands[s.C.Choose(key, len(cands), "foreign-pick")]
			bo := &BatchObj{Oid: u, Size: int64(len(s.Store[u])), Actions: map[string]*BatchAct{}}
			a, _ := s.newOffer(op, u, bo.Size, len(s.Batches)-1, false, false)
			bo.Actions[op] = a
			out.Objects = append(out.Objects, bo)
			br.Unknown = append(br.Unknown, u)
			noteExtra += "+foreign"
		}
	}
	if out.Objects == nil {
		out.Objects = []*BatchObj{}
	}
	b, _ := json.Marshal(out)
	if noteExtra == "" && s.hit(key, s.F.BatchCorrupt, "batch.corrupt") {
		var what string
		b, what = corruptJSON(s.C, key, b)
		noteExtra += "+corrupt(" + what + ")"
		br.Corrupt = what
		for _, o := range s.Offers {
			if o.BatchSeq == len(s.Batches)-1 {
				o.Tainted = true
			}
		}
	}
	return finish(JSONResp(200, b), "batch.200"+noteExtra)
}

func (s *LFSServer) findOffer(rec *ReqRec, rel, oid string) *Offer {
	tok := rec.Header.Get("X-Sim-Token")
	o := s.Offers[tok]
	if o == nil {
		// A request following a deliberately corrupted response cannot
		// be judged against what was offered.
		for _, t := range s.Offers {
			if t.Tainted && (t.Href == rec.URL || t.Href == strings.TrimSuffix(rec.URL, "?via=redirect") || (t.Oid == oid && oid != "")) {
				return nil
			}
		}
		s.Problems = append(s.Problems, fmt.Sprintf("req#%d %s %s: no action was offered for this request (token %q)", rec.Seq, rec.Method, rec.URL, tok))
		return nil
	}
	o.Used++
	o.UsedAt = append(o.UsedAt, rec.Seq)
	if o.Tainted {
		return o
	}
	if o.Rel != rel || (rel != "verify" && o.Oid != oid) {
		s.Problems = append(s.Problems, fmt.Sprintf("req#%d %s %s uses action %s offered for %s %s", rec.Seq, rec.Method, rec.URL, tok, o.Rel, o.Oid))
	}
	// (the copy of a request this server redirected carries its marker)
	if rec.URL != o.Href && strings.TrimSuffix(rec.URL, "?via=redirect") != o.Href {
		s.Problems = append(s.Problems, fmt.Sprintf("req#%d %s %s: action %s was offered with href %s", rec.Seq, rec.Method, rec.URL, tok, o.Href))
	}
	for k, v := range o.Header {
		// every value the request carries under this header name, whatever the spelling
		var vals []string
		for hk, hv := range rec.Header {
			if strings.EqualFold(hk, k) {
				vals = append(vals, hv...)
			}
		}
		if len(vals) != 1 || vals[0] != v {
			s.Problems = append(s.Problems, fmt.Sprintf("req#%d %s %s: the action offered header %s: %s, the request carries %q under that name", rec.Seq, rec.Method, rec.URL, k, v, vals))
		}
	}
	return o
}

var rangeRE = regexp.MustCompile(`^bytes=(\d+)-(\d*)$`)

func (s *LFSServer) serveGet(rec *ReqRec, oid string) *Resp {
	key := "get/" + oid
	off := s.findOffer(rec, "download", oid)
	_ = off
	data, has := s.Store[oid]
	if !has {
		r := JSONResp(404, errBody("no such object"))
		r.Note = "get.404-absent"
		return r
	}
	if s.hit(key, s.F.Get429, "get.429") {
		hdr, until := s.retryAfter(key)
		r := JSONResp(429, errBody("slow down"))
		if hdr != "" {
			r.Header.Set("Retry-After", hdr)
		}
		s.Deferrals = append(s.Deferrals, &Deferral{ReqSeq: rec.Seq, Step: rec.Step, At: s.Now(), Kind: "download", Oids: []string{oid}, Until: until, Header: hdr})
		r.Note = "get.429 retry-after=" + hdr
		return r
	}
	if s.hit(key, s.F.Get5xx, "get.5xx") {
		codes := []int{500, 502, 503, 507, 509}
		c := codes[s.C.Choose(key, len(codes), "get-5xx-code")]
		r := JSONResp(c, errBody("storage trouble"))
		r.Note = fmt.Sprintf("get.%d", c)
		return r
	}
	if s.hit(key, s.F.Get4xx, "get.4xx") {
		codes := []int{403, 404, 410, 400}
		if s.Storage401 {
			codes = append(codes, 401, 401)
		}
		c := codes[s.C.Choose(key, len(codes), "get-4xx-code")]
		r := JSONResp(c, errBody("storage says no"))
		if c == 401 {
			r.Header.Set("Www-Authenticate", `Basic realm="storage"`)
		}
		r.Note = fmt.Sprintf("get.%d", c)
		return r
	}

	body := data
	status := 200
	r := NewResp(200)
	r.Header.Set("Content-Type", "application/octet-stream")
	note := "get.200"
	if rg := rec.Header.Get("Range"); rg != "" {
		m := rangeRE.FindStringSubmatch(rg)
		start := int64(-1)
		if m != nil {
			start, _ = strconv.ParseInt(m[1], 10, 64)
		}
		switch {
		case m == nil:
			s.Problems = append(s.Problems, fmt.Sprintf("req#%d malformed Range %q", rec.Seq, rg))
		case s.hit(key, s.F.RangeIgnore, "range.ignored-200"):
			note = "get.200-range-ignored"
		case s.hit(key, s.F.Range416, "range.416") || start >= int64(len(data)):
			rr := JSONResp(416, errBody("range not satisfiable"))
			rr.Header.Set("Content-Range", fmt.Sprintf("bytes */%d", len(data)))
			rr.Note = "get.416"
			return rr
		default:
			status = 206
			body = data[start:]
			cr := fmt.Sprintf("bytes %d-%d/%d", start, len(data)-1, len(data))
			note = "get.206"
			switch {
			case s.hit(key, s.F.RangeWrongStart, "range.wrong-start"):
				// header and body both from a wrong offset
				ws := start - 1 - int64(s.C.Choose(key, int(start), "wrong-start-delta"))
				if ws < 0 {
					ws = 0
				}
				body = data[ws:]
				cr = fmt.Sprintf("bytes %d-%d/%d", ws, len(data)-1, len(data))
				note = "get.206-wrong-start"
			case s.hit(key, s.F.RangeWrongSuffix, "range.wrong-suffix"):
				// header claims the right start, body is from another offset
				ws := int64(s.C.Choose(key, len(data), "wrong-suffix-off"))
				if ws == start {
					ws = 0
				}
				body = data[ws:]
				note = "get.206-body-from-wrong-offset"
			case s.hit(key, s.F.RangeNoHeader, "range.no-content-range"):
				cr = ""
				note = "get.206-no-content-range"
			case s.hit(key, s.F.RangeBadHeader, "range.bad-content-range"):
				cr = []string{"bytes", "octets 1-2/3", "bytes x-y/z", "bytes -5"}[s.C.Choose(key, 4, "bad-cr-form")]
				note = "get.206-bad-content-range"
			}
			if cr != "" {
				r.Header.Set("Content-Range", cr)
			}
		}
	}
	r.Status = status
	// body faults
	body = append([]byte(nil), body...)
	switch {
	case len(body) > 0 && s.hit(key, s.F.GetPrefix, "body.prefix"):
		k := s.C.Choose(key, len(body), "prefix-len")
		if s.C.Choose(key, 2, "prefix-declared") == 0 {
			r.DeclaredLength = int64(len(body)) // cut connection: ErrUnexpectedEOF
			note += "+cut"
		} else {
			note += "+short-body"
		}
		body = body[:k]
	case s.hit(key, s.F.GetExtra, "body.extra"):
		extra := 1 + s.C.Choose(key, 64, "extra-len")
		for i := 0; i < extra; i++ {
			body = append(body, byte('A'+i%26))
		}
		note += "+extra"
	case len(body) > 0 && s.hit(key, s.F.GetFlip, "body.bitflip"):
		i := s.C.Choose(key, len(body), "flip-pos")
		body[i] ^= 1 << uint(s.C.Choose(key, 8, "flip-bit"))
		note += "+bitflip"
	case s.hit(key, s.F.GetOther, "body.other-object"):
		body = []byte("this is a different object entirely, of another length")
		if len(s.Store) > 1 {
			// deterministic pick: smallest other oid
			best := ""
			for k := range s.Store {
				if k != oid && (best == "" || k < best) {
					best = k
				}
			}
			body = append([]byte(nil), s.Store[best]...)
		}
		note += "+other-object"
	case len(body) > 0 && s.hit(key, s.F.GetCut, "body.read-error"):
		r.ReadErrAfter = s.C.Choose(key, len(body), "cut-after")
		note += "+read-error"
	}
	if s.hit(key, s.F.GetNoLength, "body.no-content-length") {
		r.NoLength = true
		note += "+no-length"
	}
	if len(body) > 1 && s.hit(key, s.F.GetBurst, "body.bursts") {
		r.Burst = 1 + s.C.Choose(key, len(body), "burst-size")
		r.BurstDelay = time.Duration(1+s.C.Choose(key, 2000, "burst-delay")) * time.Millisecond
		note += "+bursts"
	}
	r.Body = body
	r.Note = note
	return r
}

func (s *LFSServer) servePut(rec *ReqRec, oid string) *Resp {
	key := "put/" + oid
	s.findOffer(rec, "upload", oid)
	if s.hit(key, s.F.Put429, "put.429") {
		hdr, until := s.retryAfter(key)
		r := JSONResp(429, errBody("slow down"))
		if hdr != "" {
			r.Header.Set("Retry-After", hdr)
		}
		s.Deferrals = append(s.Deferrals, &Deferral{ReqSeq: rec.Seq, Step: rec.Step, At: s.Now(), Kind: "upload", Oids: []string{oid}, Until: until, Header: hdr})
		r.Note = "put.429 retry-after=" + hdr
		return r
	}
	if s.hit(key, s.F.Put5xx, "put.5xx") {
		codes := []int{500, 502, 503, 507}
		c := codes[s.C.Choose(key, len(codes), "put-5xx-code")]
		r := JSONResp(c, errBody("storage trouble"))
		r.Note = fmt.Sprintf("put.%d", c)
		return r
	}
	if s.hit(key, s.F.Put4xx, "put.4xx") {
		codes := []int{403, 404, 400, 409}
		if s.Storage401 {
			codes = append(codes, 401, 401)
		}
		c := codes[s.C.Choose(key, len(codes), "put-4xx-code")]
		r := JSONResp(c, errBody("storage says no"))
		if c == 401 {
			r.Header.Set("Www-Authenticate", `Basic realm="storage"`)
		}
		r.Note = fmt.Sprintf("put.%d", c)
		return r
	}
	if s.hit(key, s.F.Put422, "put.422") {
		r := JSONResp(422, errBody("unprocessable content type"))
		r.Note = "put.422"
		return r
	}
	if s.verifyOffered[oid] && s.hit(key, s.F.PutNotStored, "put.accepted-not-stored") {
		r := NewResp(200)
		r.Note = "put.200-but-not-stored"
		return r
	}
	if OidOf(rec.Body) != oid {
		r := JSONResp(400, errBody("content does not hash to oid"))
		r.Note = "put.400-hash-mismatch"
		s.Problems = append(s.Problems, fmt.Sprintf("req#%d PUT body for %s hashes to %s", rec.Seq, oid, OidOf(rec.Body)))
		return r
	}
	s.Store[oid] = append([]byte(nil), rec.Body...)
	s.PutLog = append(s.PutLog, oid)
	if s.hit(key, s.F.PutLostReply, "put.lost-reply") {
		return &Resp{Err: ErrConnReset, Note: "put.stored-reply-lost"}
	}
	r := NewResp(200)
	r.Note = "put.200"
	return r
}

func (s *LFSServer) serveVerify(rec *ReqRec) *Resp {
	o := s.findOffer(rec, "verify", "")
	var v struct {
		Oid  string `json:"oid"`
		Size int64  `json:"size"`
	}
	if err := json.Unmarshal(rec.Body, &v); err != nil {
		s.Problems = append(s.Problems, fmt.Sprintf("req#%d verify body is not JSON", rec.Seq))
		return JSONResp(400, errBody("bad json"))
	}
	rec.Oid = v.Oid
	if o != nil && (v.Oid != o.Oid || v.Size != o.Size) {
		s.Problems = append(s.Problems, fmt.Sprintf("req#%d verify names %s/%d, action was for %s/%d", rec.Seq, v.Oid, v.Size, o.Oid, o.Size))
	}
	key := "verify/" + v.Oid
	if s.hit(key, s.F.Verify5xx, "verify.5xx") {
		r := JSONResp(503, errBody("verify trouble"))
		r.Note = "verify.503"
		return r
	}
	if s.hit(key, s.F.Verify4xx, "verify.4xx") {
		r := JSONResp(403, errBody("verify says no"))
		r.Note = "verify.403"
		return r
	}
	d, ok := s.Store[v.Oid]
	if !ok || int64(len(d)) != v.Size {
		r := JSONResp(404, errBody("object not stored"))
		r.Note = "verify.404"
		return r
	}
	r := JSONResp(200, []byte(`{}`))
	r.Note = "verify.200"
	return r
}

// corruptJSON applies one single-field corruption to a valid JSON document:
// it walks the document, collects every (container, key) position, picks one
// and replaces / removes / retypes the value there, or adds an unknown field.
func corruptJSON(c Chooser, key string, b []byte) ([]byte, string) {
	var doc interface{}
	if json.Unmarshal(b, &doc) != nil {
		return b, "not-json"
	}
	type pos struct {
		m    map[string]interface{}
		a    []interface{}
		k    string
		i    int
		path string
	}
	var ps []pos
	var walk func(v interface{}, path string)
	walk = func(v interface{}, path string) {
		switch t := v.(type) {
		case map[string]interface{}:
			keys := make([]string, 0, len(t))
			for k := range t {
				keys = append(keys, k)
			}
			sortStrings(keys)
			for _, k := range keys {
				ps = append(ps, pos{m: t, k: k, path: path + "." + k})
				walk(t[k], path+"."+k)
			}
		case []interface{}:
			for i := range t {
				ps = append(ps, pos{a: t, i: i, path: fmt.Sprintf("%s[%d]", path, i)})
				walk(t[i], fmt.Sprintf("%s[%d]", path, i))
			}
		}
	}
	walk(doc, "$")
	if len(ps) == 0 {
		return b, "empty"
	}
	p := ps[c.Choose(key, len(ps), "corrupt-pos")]
	muts := []string{"null", "string", "number", "negative", "bool", "array", "object", "delete", "extra-field", "empty-string", "upper", "relative-url", "ftp-url"}
	mut := muts[c.Choose(key, len(muts), "corrupt-kind")]
	var nv interface{}
	switch mut {
	case "null":
		nv = nil
	case "string":
		nv = "surprise"
	case "number":
		nv = 12345
	case "negative":
		nv = -7
	case "bool":
		nv = true
	case "array":
		nv = []interface{}{"x"}
	case "object":
		nv = map[string]interface{}{"x": 1}
	case "empty-string":
		nv = ""
	case "relative-url":
		nv = "/objects/relative"
	case "ftp-url":
		nv = "ftp://storage.sim/objects/x"
	case "upper":
		var cur interface{}
		if p.m != nil {
			cur = p.m[p.k]
		} else {
			cur = p.a[p.i]
		}
		if sv, ok := cur.(string); ok {
			nv = strings.ToUpper(sv)
		} else {
			nv = "UPPER"
		}
	}
	switch {
	case mut == "delete" && p.m != nil:
		delete(p.m, p.k)
	case mut == "extra-field" && p.m != nil:
		p.m["x_unknown_field"] = map[string]interface{}{"nested": []interface{}{1, "two"}}
	case p.m != nil:
		p.m[p.k] = nv
	default:
		p.a[p.i] = nv
	}
	nb, err := json.Marshal(doc)
	if err != nil {
		return b, "marshal-failed"
	}
	return nb, p.path + "=" + mut
}

func sortStrings(a []string) {
	for i := 1; i < len(a); i++ {
		for j := i; j > 0 && a[j] < a[j-1]; j-- {
			a[j], a[j-1] = a[j-1], a[j]
		}
	}
}
