package sim

// LockTable is the simulated lock API mounted on an LFSServer.
type LockTable struct {
	impl lockImpl
}

type lockImpl interface {
	serve(s *LFSServer, rec *ReqRec) *Resp
}

func (l *LockTable) Serve(s *LFSServer, rec *ReqRec) *Resp {
	if l.impl == nil {
		return JSONResp(501, []byte(`{"message":"locking not implemented"}`))
	}
	return l.impl.serve(s, rec)
}
