#!/bin/bash
# tools/sweep.sh <seed> [tier]: every claimed check on the current tree; prints one line per check
seed=${1:-1}; tier=${2:-quick}
cd /verif
for id in $(jq -r '.checks[].property_id' MANIFEST.json); do
  t0=$(date +%s)
  VERIF_SEED=$seed ./check $id --tier $tier > /tmp/sweep-$id.log 2>&1; rc=$?
  t1=$(date +%s)
  echo "$id seed=$seed rc=$rc $((t1-t0))s $(grep -c '^VIOLATION' /tmp/sweep-$id.log) violations; $(grep -c '^KNOWN-FINDING' /tmp/sweep-$id.log) known; $(grep -c '^INFRA' /tmp/sweep-$id.log) infra | $(tail -1 /tmp/sweep-$id.log | cut -c1-150)"
done
