#!/bin/bash
# recheck.sh <id> <prop>: run the property's check against the kept patch in a scratch worktree
id=$1; prop=$2; shift 2
wt=/tmp/mut/re-$id
git -C /repo worktree remove --force $wt 2>/dev/null; rm -rf $wt
git -C /repo worktree add -q --detach $wt HEAD || exit 2
(cd $wt && git apply /verif/seeded/$id/patch.diff) || { echo "$id: patch does not apply"; git -C /repo worktree remove --force $wt; exit 3; }
cd /verif
VERIF_REPO=$wt VERIF_OUT=/tmp/mut/reout-$id ./check $prop "$@" > /tmp/mut/recheck-$id.log 2>&1; rc=$?
n=$(grep -c "^VIOLATION property=$prop" /tmp/mut/recheck-$id.log)
echo "$id rc=$rc violations=$n $(grep -A1 '^VIOLATION' /tmp/mut/recheck-$id.log | sed -n 2p | cut -c1-200)"
rm -rf /tmp/mut/reout-$id
git -C /repo worktree remove --force $wt 2>/dev/null; rm -rf $wt
