#!/bin/bash
# tools/seedcheck.sh <seed-id> <property> <out-dir> <n> <demo-pkg-dir> [check args...]
# 1. confirms a sub-agent's change in a scratch worktree (builds, existing tests of the touched
#    packages pass, its demonstration fails with the change and passes without),
# 2. runs ./check <property> against /repo with the change applied, reverts it,
# 3. files the change under /verif/seeded/<seed-id>/.
set -u
id=$1; prop=$2; out=$3; n=$4; pkg=$5; shift 5
export GOFLAGS=-mod=mod GOPROXY=off GOSUMDB=off GOTOOLCHAIN=local GIT_CONFIG_GLOBAL=/dev/null
diff=$out/change$n.diff; [ -f $out/change$n-rebased.diff ] && diff=$out/change$n-rebased.diff
demo=$(ls $out/demo$n.sh $out/demo$n*_test.go 2>/dev/null | head -1)
mkdir -p /tmp/mut
wt=/tmp/mut/confirm-$id
git -C /repo worktree remove --force $wt 2>/dev/null; rm -rf $wt
git -C /repo worktree add -q --detach $wt HEAD || exit 2
res_build=fail; res_tests=fail; res_demo_with=unknown; res_demo_without=unknown
cd $wt
run_demo() {
  case "$demo" in
    *_test.go) cp "$demo" $wt/$pkg/zz_demo_test.go; (cd $wt && timeout 300 go test -count=1 -run "$(grep -o 'func Test[A-Za-z0-9_]*' "$demo" | sed 's/func //' | paste -sd'|')" ./$pkg >/tmp/mut/demo-$id.log 2>&1); rc=$?; rm -f $wt/$pkg/zz_demo_test.go; return $rc;;
    *.sh) (cd $wt && timeout 600 bash "$demo" $wt >/tmp/mut/demo-$id.log 2>&1); return $?;;
    *) return 99;;
  esac
}
run_demo; [ $? -eq 0 ] && res_demo_without=pass || res_demo_without=FAIL
if git apply --check "$diff" 2>/dev/null; then
  git apply "$diff"
  go build ./... >/dev/null 2>&1 && res_build=ok
  pk=$(git diff --name-only | xargs -n1 dirname | sort -u | sed 's#^#./#' | tr '\n' ' ')
  go test -count=1 $pk ./tq ./lfs ./commands ./lfsapi ./lfshttp ./locking >/tmp/mut/tests-$id.log 2>&1 && res_tests=pass
  run_demo; [ $? -eq 0 ] && res_demo_with=PASS-unexpected || res_demo_with=fails
else
  res_build=does-not-apply
fi
cd /verif
# run the check against the change: by default in the scratch worktree through
# VERIF_REPO (so /repo stays untouched and other checks can run meanwhile);
# with APPLY_TO_REPO=1 the change is applied to /repo itself and reverted.
caught=no; detail=""
if [ "$res_build" = ok ]; then
  if [ -n "${APPLY_TO_REPO:-}" ]; then
    git -C /repo apply "$diff" && {
      ./check $prop "$@" > /tmp/mut/check-$id.log 2>&1; rc=$?
      git -C /repo checkout -- . ; git -C /repo clean -fdq -e bin 2>/dev/null
    }
  else
    (cd $wt && git checkout -q -- . && git clean -fdq && git apply "$diff")
    VERIF_REPO=$wt VERIF_OUT=/tmp/mut/evalout-$id ./check $prop "$@" > /tmp/mut/check-$id.log 2>&1; rc=$?
    rm -rf /tmp/mut/evalout-$id
  fi
  if grep -q "^VIOLATION property=$prop" /tmp/mut/check-$id.log; then caught=yes; detail=$(grep -A2 "^VIOLATION" /tmp/mut/check-$id.log | sed -n '2,3p' | tr '\n' ' ' | cut -c1-400); fi
  [ $rc -eq 2 ] && detail="check exit 2: $(tail -3 /tmp/mut/check-$id.log | tr '\n' ' ' | cut -c1-300)"
fi
git -C /repo worktree remove --force $wt 2>/dev/null; rm -rf $wt
[ -n "${APPLY_TO_REPO:-}" ] && rm -f /verif/replays/$prop-*.json
mkdir -p seeded/$id
cp "$diff" seeded/$id/patch.diff
[ -n "$demo" ] && cp "$demo" seeded/$id/
cp $out/notes$n.md seeded/$id/notes.md 2>/dev/null
python3 - "$id" "$prop" "$res_build" "$res_tests" "$res_demo_without" "$res_demo_with" "$caught" "$detail" "$pkg" "$*" <<'PY'
import json,sys
id,prop,b,t,dw,dwith,caught,detail,pkg,args=sys.argv[1:11]
meta={"id":id,"breaks_property":prop,"confirmed":{"applies_and_builds":b,"existing_tests_of_touched_and_core_packages":t,"demonstration_without_change":dw,"demonstration_with_change":dwith},"demo_package_dir":pkg,"check_run":f"git -C /repo apply patch.diff; ./check {prop} {args}; git -C /repo checkout -- .","caught_by_check":caught,"violation_reported":detail,"needs":"see notes.md (written by the sub-agent that produced the change)"}
json.dump(meta,open(f"/verif/seeded/{id}/meta.json","w"),indent=1)
print(json.dumps(meta)[:600])
PY
