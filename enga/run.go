// Package enga is engine A: real git-lfs code inside a testing/synctest
// bubble, driven by the gate scheduler and the choice tape.
package enga

import (
	"fmt"
	"os"
	"path/filepath"
	"sort"
	"strings"
	"testing"
	"testing/synctest"
	"time"

	"verif/sim"
)

// Result is the outcome of one simulated run.
type Result struct {
	Idx        int               `json:"idx"`
	Seed       uint64            `json:"seed"`
	Class      string            `json:"class,omitempty"` // "" = property held
	Detail     string            `json:"detail,omitempty"`
	Needs      []string          `json:"needs,omitempty"` // fault kinds that fired
	TraceHash  uint64            `json:"trace_hash"`
	SchedHash  uint64            `json:"sched_hash"`
	Steps      int               `json:"steps"`
	Interleave int               `json:"interleave"`
	SimTimeMs  int64             `json:"sim_ms"`
	Fired      map[string]int    `json:"fired,omitempty"`
	Probes     map[string]int    `json:"probes,omitempty"`
	Nontrivial bool              `json:"nontrivial"`
	Tape       []uint32          `json:"tape,omitempty"`
	Labels     []string          `json:"labels,omitempty"`
	Sample     interface{}       `json:"sample,omitempty"`
	Harness    string            `json:"harness,omitempty"` // harness trouble, never a violation
	Extra      map[string]string `json:"extra,omitempty"`
	Trace      []string          `json:"trace,omitempty"`
	Marks      []string          `json:"marks,omitempty"` // notable history facts (for known-finding matching)
}

// Opts controls one run.
type Opts struct {
	KeepLabels bool
	WantSample bool
	Suppress   map[string]bool // fault kinds drawn but not applied
	Dir        string          // scratch directory for this run (emptied)
}

// Workload is one property's simulated scenario + oracle.
type Workload func(rc *RunCtx)

// RunCtx is handed to a workload.
type RunCtx struct {
	T     *testing.T
	Tape  *sim.Tape
	Opts  Opts
	Dir   string
	Res   *Result
	Sched *sim.Sched
}

// Violation records the first violation of the run.
func (rc *RunCtx) Violation(class, format string, a ...interface{}) {
	if rc.Res.Class == "" {
		rc.Res.Class = class
		rc.Res.Detail = fmt.Sprintf(format, a...)
	}
}

func (rc *RunCtx) Probe(name string) {
	if rc.Res.Probes == nil {
		rc.Res.Probes = map[string]int{}
	}
	rc.Res.Probes[name]++
}

var workloads = map[string]Workload{}

// noBubble: workloads that need no scheduler or fake clock run outside a
// synctest bubble (they may spawn subprocesses freely).
var noBubble = map[string]bool{}

// Register adds a workload under a name ("C06", "C06.nofault", …).
func Register(name string, w Workload) { workloads[name] = w }

func WorkloadNames() []string {
	var n []string
	for k := range workloads {
		n = append(n, k)
	}
	sort.Strings(n)
	return n
}

// RunOne executes one run of a workload on a tape inside a fresh bubble.
func RunOne(t *testing.T, workload string, tape *sim.Tape, opts Opts) (res Result) {
	w := workloads[workload]
	if w == nil {
		res.Harness = "unknown workload " + workload
		return
	}
	res.Seed = tape.Seed
	tape.KeepLabels(opts.KeepLabels)
	dir := opts.Dir
	if dir != "" {
		os.RemoveAll(dir)
		os.MkdirAll(dir, 0755)
	}
	rc := &RunCtx{T: t, Tape: tape, Opts: opts, Dir: dir, Res: &res}
	var bubbleStart, bubbleEnd time.Time
	func() {
		defer func() {
			if r := recover(); r != nil {
				msg := fmt.Sprint(r)
				if he, ok := r.(sim.HarnessError); ok {
					res.Harness = he.Msg
					return
				}
				if strings.Contains(msg, "deadlock: all goroutines in bubble are blocked") || strings.Contains(msg, "deadlock: main bubble goroutine has exited but blocked goroutines remain") {
					// Leftover goroutines after the scheduler stopped:
					// expected when a hang/livelock was already
					// classified; otherwise note it as a probe.
					if res.Class == "" && res.Harness == "" {
						rc.Probe("goroutines-left-after-run")
					}
					return
				}
				res.Harness = "panic in harness goroutine: " + msg
			}
		}()
		if noBubble[workload] {
			w(rc)
			return
		}
		synctest.Test(t, func(t *testing.T) {
			bubbleStart = time.Now()
			rc.T = t
			w(rc)
			bubbleEnd = time.Now()
		})
	}()
	sim.Uninstall()
	res.TraceHash = tape.Hash()
	res.SchedHash = tape.SchedH
	if !bubbleEnd.IsZero() {
		res.SimTimeMs = bubbleEnd.Sub(bubbleStart).Milliseconds()
	}
	if rc.Sched != nil {
		if opts.KeepLabels {
			res.Trace = rc.Sched.Trace
		}
		res.Steps = rc.Sched.Step
		res.Interleave = rc.Sched.Interleave
	}
	if res.Class != "" || opts.KeepLabels {
		res.Tape = append([]uint32(nil), tape.Rec...)
		res.Labels = tape.Labels
	}
	for k := range res.Fired {
		res.Needs = append(res.Needs, k)
	}
	sort.Strings(res.Needs)
	return
}

// scratchRoot returns the scratch directory of this worker.
func scratchRoot() string {
	if d := os.Getenv("VERIF_SCRATCH"); d != "" {
		return d
	}
	return filepath.Join(os.TempDir(), fmt.Sprintf("verif-%d", os.Getpid()))
}
