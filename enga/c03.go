package enga

import (
	"bytes"

	"verif/sim"
)

// C03.queue: the upload half of a push seen from inside the process. The real
// transfer queue, batch client and basic upload adapter run against the
// simulated server under the gate scheduler; when the queue reports no error
// (which is when `git push` goes on to update the ref), every object that was
// added must be on the server with the right content.
func init() {
	Register("C03.queue", func(rc *RunCtx) {
		cfg := GenQCfg(rc.Tape, QProfile{ForceReal: true, ForceUp: true, TimeFaults: true})
		qr := RunQueue(rc, cfg)
		checkC03Queue(rc, qr)
		finishQ(rc, qr)
	})
}

func checkC03Queue(rc *RunCtx, qr *QRun) {
	if rc.Res.Class != "" || rc.Res.Harness != "" {
		return
	}
	if !qr.WaitDone {
		rc.Violation("hang", "Wait did not return (adds done %d/%d)", qr.AddsDone, len(qr.Cfg.Adds))
		return
	}
	if len(qr.Errors) > 0 {
		rc.Probe("upload-reported-errors")
		return
	}
	rc.Probe("upload-reported-success")
	// a server that answered "nothing to do" for an object it does not hold
	// (scripted lie) has only itself to blame
	lied := map[string]bool{}
	for _, b := range qr.W.Srv.Batches {
		for oid, shape := range b.Shapes {
			if shape == "noaction" {
				lied[oid] = true
			}
		}
	}
	for _, add := range qr.Cfg.Adds {
		o := qr.Objs[add.Obj]
		if len(o.Data) == 0 || add.Missing || add.CallerErr || lied[o.Oid] {
			continue
		}
		got, ok := qr.W.Srv.Store[o.Oid]
		if !ok {
			rc.Violation("pushed-ref-lacks-object", "the upload queue finished without reporting any error, but object %s (%d bytes) is not on the server", short(o.Oid), len(o.Data))
			return
		}
		if !bytes.Equal(got, o.Data) || sim.OidOf(got) != o.Oid {
			rc.Violation("pushed-ref-lacks-object", "the upload queue finished without error, but the server holds %d bytes hashing to %s under %s", len(got), short(sim.OidOf(got)), short(o.Oid))
			return
		}
	}
}
