package enga

import (
	"fmt"
	"os"
	"path/filepath"
	"strconv"
	"sync"
	"time"

	"github.com/git-lfs/git-lfs/v3/errors"
	"github.com/git-lfs/git-lfs/v3/fs"
	"github.com/git-lfs/git-lfs/v3/lfsapi"
	"github.com/git-lfs/git-lfs/v3/lfshttp"
	"github.com/git-lfs/git-lfs/v3/tq"
	"github.com/git-lfs/git-lfs/v3/verifhook"

	"verif/sim"
)

// Client is one simulated git-lfs process: its own API client, manifest and
// file-system view (possibly on a shared .git/lfs).
type Client struct {
	ID       int
	GitEnv   map[string]string
	OsEnv    map[string]string
	API      *lfsapi.Client
	FS       *fs.Filesystem
	Dir      string
	Manifest tq.Manifest
}

// World is the simulated environment of a queue run.
type World struct {
	RC    *RunCtx
	S     *sim.Sched
	T     *sim.Tape
	Net   *sim.Net
	Srv   *sim.LFSServer
	Start time.Time
}

func NewWorld(rc *RunCtx, faults sim.Faults) *World {
	s := sim.NewSched(rc.Tape)
	s.Keep = rc.Opts.KeepLabels
	rc.Sched = s
	w := &World{RC: rc, S: s, T: rc.Tape, Start: time.Now()}
	w.Net = sim.NewNet(s, rc.Tape)
	w.Net.Debug = os.Getenv("VERIF_DEBUG") != ""
	w.Srv = sim.NewLFSServer(sim.TapeChooser{T: rc.Tape}, faults)
	w.Srv.Suppress = rc.Opts.Suppress
	w.Srv.Now = func() time.Duration { return time.Since(w.Start) }
	w.Srv.WallNow = func() time.Time { return time.Now() }
	w.Net.Handle(w.Srv.APIOrigin, w.Srv)
	w.Net.Handle(w.Srv.StorageOrigin, w.Srv)
	verifhook.TransportFn = w.Net.RoundTripperFor
	return w
}

// NewClient builds a simulated git-lfs process rooted at dir (dir/.git/lfs is
// its storage).
func (w *World) NewClient(id int, dir string, extra map[string]string) *Client {
	gitEnv := map[string]string{
		"remote.origin.url": w.Srv.APIOrigin + "/repo.git",
		"http.extraheader":  "X-Sim-Client: " + strconv.Itoa(id),
	}
	for k, v := range extra {
		gitEnv[k] = v
	}
	osEnv := map[string]string{"HOME": filepath.Join(dir, "home"), "GIT_TERMINAL_PROMPT": "0"}
	return w.newClientFrom(id, dir, gitEnv, osEnv)
}

func (w *World) newClientFrom(id int, dir string, gitEnv, osEnv map[string]string) *Client {
	c := &Client{ID: id, Dir: dir, GitEnv: gitEnv, OsEnv: osEnv}
	ctx := lfshttp.NewContext(nil, c.OsEnv, c.GitEnv)
	api, err := lfsapi.NewClient(ctx)
	if err != nil {
		panic(sim.HarnessError{Msg: "lfsapi.NewClient: " + err.Error()})
	}
	c.API = api
	os.MkdirAll(filepath.Join(dir, ".git"), 0755)
	c.FS = fs.New(ctx.OSEnv(), filepath.Join(dir, ".git"), dir, "", 0755)
	return c
}

// Obj is one generated object.
type Obj struct {
	Idx  int
	Data []byte
	Oid  string
}

// ---- scripted adapter -------------------------------------------------

// Attempt is one transfer attempt as recorded by an adapter.
type Attempt struct {
	Oid        string
	Worker     string
	StartStep  int
	EndStep    int
	Start, End time.Duration
	Outcome    string // ok, retriable, fatal, later, 422
	Open       bool
}

const ScriptedName = "simscript"

// ScriptCfg: per-attempt outcome rates (per 1000) of the scripted adapter.
type ScriptCfg struct {
	Retriable, Fatal, Later, Unprocessable int
	LaterMaxS                              int
	LatencyMaxMs                           int
	BeginErr                               bool
}

type scriptedAdapter struct {
	w    *World
	cfg  ScriptCfg
	dir  tq.Direction
	id   int
	jobs chan *sjob
	wwg  sync.WaitGroup
	jwg  sync.WaitGroup
	rec  *[]*Attempt
	addN int
}

type sjob struct {
	t       *tq.Transfer
	results chan<- tq.TransferResult
}

func (a *scriptedAdapter) Name() string            { return ScriptedName }
func (a *scriptedAdapter) Direction() tq.Direction { return a.dir }

func (a *scriptedAdapter) Begin(cfg tq.AdapterConfig, cb tq.ProgressCallback) error {
	if a.cfg.BeginErr {
		a.w.Srv.Fired["adapter.begin-error"]++
		return errors.New("scripted adapter refuses to begin")
	}
	a.jobs = make(chan *sjob, 100)
	n := cfg.ConcurrentTransfers()
	a.wwg.Add(n)
	for i := 0; i < n; i++ {
		name := fmt.Sprintf("sa%d.w%d", a.id, i)
		a.w.S.Go(name, func() { a.worker(name) })
	}
	return nil
}

func (a *scriptedAdapter) Add(ts ...*tq.Transfer) <-chan tq.TransferResult {
	results := make(chan tq.TransferResult, len(ts))
	a.jwg.Add(len(ts))
	a.addN++
	a.w.S.Go(fmt.Sprintf("sa%d.feeder%d", a.id, a.addN), func() {
		for _, t := range ts {
			a.w.S.Yield("sa.feed")
			a.jobs <- &sjob{t, results}
		}
		a.w.S.Yield("sa.feedwait")
		a.jwg.Wait()
		a.w.S.Yield("sa.feedclose")
		close(results)
	})
	return results
}

func (a *scriptedAdapter) End() {
	a.w.S.Yield("sa.end.jobwait")
	a.jwg.Wait()
	a.w.S.Yield("sa.end.close")
	close(a.jobs)
	a.w.S.Yield("sa.end.workerwait")
	a.wwg.Wait()
}

func (a *scriptedAdapter) worker(name string) {
	s := a.w.S
	T := a.w.T
	for j := range a.jobs {
		s.Yield("sa.job")
		at := &Attempt{Oid: j.t.Oid, Worker: name, StartStep: s.Step, Start: time.Since(a.w.Start), Open: true}
		*a.rec = append(*a.rec, at)
		s.Emit("attempt.start", a, j.t.Oid, name)
		if a.cfg.LatencyMaxMs > 0 {
			s.Sleep(time.Duration(T.Choose(a.cfg.LatencyMaxMs+1, "sa-latency"))*time.Millisecond, "sa.work")
		}
		var err error
		c := a.cfg
		switch {
		case a.w.Srv.Hit("", c.Retriable, "adapter.retriable"):
			at.Outcome = "retriable"
			err = errors.NewRetriableError(fmt.Errorf("scripted: transient failure for %s", j.t.Oid))
		case a.w.Srv.Hit("", c.Fatal, "adapter.fatal"):
			at.Outcome = "fatal"
			err = fmt.Errorf("scripted: permanent failure for %s", j.t.Oid)
		case a.w.Srv.Hit("", c.Later, "adapter.retry-later"):
			at.Outcome = "later"
			secs := T.Choose(c.LaterMaxS+1, "sa-later-secs")
			err = errors.NewRetriableLaterError(fmt.Errorf("scripted: come back later for %s", j.t.Oid), strconv.Itoa(secs))
			a.w.Srv.Deferrals = append(a.w.Srv.Deferrals, &sim.Deferral{ReqSeq: -1, Step: s.Step, At: time.Since(a.w.Start), Kind: "adapter", Oids: []string{j.t.Oid}, Until: time.Since(a.w.Start) + time.Duration(secs)*time.Second, Header: strconv.Itoa(secs)})
		case a.w.Srv.Hit("", c.Unprocessable, "adapter.422"):
			at.Outcome = "422"
			err = errors.NewUnprocessableEntityError(fmt.Errorf("scripted: 422 for %s", j.t.Oid))
		default:
			at.Outcome = "ok"
		}
		at.End = time.Since(a.w.Start)
		at.EndStep = s.Step
		at.Open = false
		s.Emit("attempt.end", a, j.t.Oid, name, err)
		s.Yield("sa.result")
		j.results <- tq.TransferResult{Transfer: j.t, Error: err}
		s.Yield("sa.jobdone")
		a.jwg.Done()
	}
	s.Yield("sa.exit")
	a.wwg.Done()
}
