package enga

import (
	"encoding/base64"
	"fmt"
	"net/http"
	"net/url"
	"os"
	"path/filepath"
	"regexp"
	"sort"
	"strconv"
	"strings"
	"sync"
	"time"

	"github.com/git-lfs/git-lfs/v3/creds"
	"github.com/git-lfs/git-lfs/v3/tq"

	"verif/sim"
)

// ---- secrets ------------------------------------------------------------------

// secretTag says where a secret may be sent.
type secretTag struct {
	Origins  map[string]bool // normalised scheme://host:port
	HostOnly string          // netrc: any scheme and port of this host name
	Source   string
}

type secrets struct {
	mu  sync.Mutex
	reg map[string]*secretTag
}

func normOrigin(scheme, host string) string {
	h := host
	if !strings.Contains(h, ":") {
		if scheme == "http" {
			h += ":80"
		} else {
			h += ":443"
		}
	}
	return scheme + "://" + h
}

func hostName(host string) string {
	if i := strings.Index(host, ":"); i >= 0 {
		return host[:i]
	}
	return host
}

func (s *secrets) add(secret, source string, origins ...string) {
	s.mu.Lock()
	defer s.mu.Unlock()
	t := s.reg[secret]
	if t == nil {
		t = &secretTag{Origins: map[string]bool{}, Source: source}
		s.reg[secret] = t
	}
	for _, o := range origins {
		t.Origins[o] = true
	}
}

var cmdSecretRE = regexp.MustCompile(`^(cmd|ask)-(https?)-([a-z0-9._]+)$`)

// lookup finds the tag of a secret; command-helper and askpass secrets carry
// their origin in their own text.
func (s *secrets) lookup(secret string) *secretTag {
	s.mu.Lock()
	defer s.mu.Unlock()
	if t := s.reg[secret]; t != nil {
		return t
	}
	if m := cmdSecretRE.FindStringSubmatch(secret); m != nil {
		return &secretTag{Origins: map[string]bool{normOrigin(m[2], strings.ReplaceAll(m[3], "_", ":")): true}, Source: m[1]}
	}
	return nil
}

// secretsIn extracts every candidate secret of a request.
func secretsIn(r *sim.ReqRec) []string {
	var out []string
	for _, a := range r.Header.Values("Authorization") {
		out = append(out, a)
		parts := strings.SplitN(a, " ", 2)
		if len(parts) == 2 {
			out = append(out, parts[1])
			if strings.EqualFold(parts[0], "basic") {
				if b, err := base64.StdEncoding.DecodeString(strings.TrimSpace(parts[1])); err == nil {
					up := strings.SplitN(string(b), ":", 2)
					out = append(out, up...)
				}
			}
		}
	}
	if u, err := url.Parse(r.URL); err == nil && u.User != nil {
		out = append(out, u.User.Username())
		if p, ok := u.User.Password(); ok {
			out = append(out, p)
		}
	}
	return out
}

// ---- recording credential helper -------------------------------------------------

type recHelper struct {
	w          *World
	sec        *secrets
	mu         sync.Mutex
	n          map[string]int
	filled     map[string]string // secret -> "protocol://host" it was filled for
	multistage bool
	problems   []string
	Fills      int
	Approves   int
	Rejects    int
}

func (h *recHelper) Fill(in creds.Creds) (creds.Creds, error) {
	h.w.S.Yield("helper.fill")
	proto := creds.FirstEntryForKey(in, "protocol")
	host := creds.FirstEntryForKey(in, "host")
	h.mu.Lock()
	defer h.mu.Unlock()
	h.Fills++
	key := proto + "://" + host
	h.n[key]++
	secret := fmt.Sprintf("hs%d-%s-%s", h.n[key], proto, strings.ReplaceAll(host, ":", "_"))
	h.sec.add(secret, "helper", normOrigin(proto, host))
	h.filled[secret] = key
	out := creds.Creds{"protocol": []string{proto}, "host": []string{host}}
	if h.multistage {
		out["authtype"] = []string{"Bearer"}
		out["credential"] = []string{secret}
		out["state[]"] = []string{"sim.stage=" + strconv.Itoa(h.n[key])}
		if h.n[key] < 2 {
			out["continue"] = []string{"1"}
		}
		return out, nil
	}
	out["username"] = []string{"simuser"}
	out["password"] = []string{secret}
	return out, nil
}

func (h *recHelper) check(what string, c creds.Creds) {
	if c == nil {
		return
	}
	secret := creds.FirstEntryForKey(c, "password")
	if secret == "" {
		secret = creds.FirstEntryForKey(c, "credential")
	}
	if secret == "" {
		return
	}
	h.mu.Lock()
	defer h.mu.Unlock()
	key := creds.FirstEntryForKey(c, "protocol") + "://" + creds.FirstEntryForKey(c, "host")
	if f, ok := h.filled[secret]; !ok {
		h.problems = append(h.problems, fmt.Sprintf("%s called with a credential (%s) that fill never returned", what, secret))
	} else if f != key {
		h.problems = append(h.problems, fmt.Sprintf("%s called for %s with the credential that was filled for %s", what, key, f))
	}
}

func (h *recHelper) Approve(c creds.Creds) error {
	h.w.S.Yield("helper.approve")
	h.mu.Lock()
	h.Approves++
	h.mu.Unlock()
	h.check("approve", c)
	return nil
}

func (h *recHelper) Reject(c creds.Creds) error {
	h.w.S.Yield("helper.reject")
	h.mu.Lock()
	h.Rejects++
	h.mu.Unlock()
	h.check("reject", c)
	return nil
}

// ---- workload ---------------------------------------------------------------------

// C10Cfg is the swarm configuration of one credentials run.
type C10Cfg struct {
	Source        string   `json:"cred_source"` // helper, multistage, url-remote, url-lfs, netrc, command, askpass, none
	AccessBasic   bool     `json:"access_preconfigured_basic"`
	AuthRequired  bool     `json:"server_requires_auth"`
	Extra401      int      `json:"extra_401_per_1000"`
	RedirectRate  int      `json:"redirect_per_1000"`
	RedirectLoop  bool     `json:"redirect_forever"`
	Ops           []string `json:"ops"`
	HrefOrigin    string   `json:"action_href_origin"`
	ActionAuth    bool     `json:"action_carries_authorization"`
	Authenticated bool     `json:"objects_marked_authenticated"`
	Mode          int      `json:"sched_mode"`
	Concurrency   int      `json:"concurrency"`
	StartHTTP     bool     `json:"api_over_plain_http"`
}

var c10Origins = []string{"https://api.sim", "https://api.sim:8443", "https://other.sim", "http://api.sim", "https://storage.sim", "http://other.sim", "https://storage.sim:8443"}

type redirRec struct {
	ID     int
	From   string // origin that issued it
	FromR  int    // r= of the request that got redirected (0 = chain start)
	To     string // Location as sent
	Status int
	Down   bool // https -> http
}

func init() {
	Register("C10", func(rc *RunCtx) { runC10(rc, true) })
	Register("C10.noredirect", func(rc *RunCtx) { runC10(rc, false) })
}

func runC10(rc *RunCtx, redirects bool) {
	t := rc.Tape
	var cfg C10Cfg
	cfg.Source = []string{"helper", "multistage", "url-remote", "url-lfs", "netrc", "none", "command", "askpass"}[t.Choose(8, "cred-source")]
	cfg.AccessBasic = t.Choose(2, "access-basic") == 1
	cfg.AuthRequired = t.Choose(3, "auth-required") != 0
	cfg.Extra401 = pickRate(t, "extra401", 1, 3)
	if redirects {
		cfg.RedirectRate = []int{300, 100, 600, 900}[t.Choose(4, "redirect-rate")]
		cfg.RedirectLoop = t.Bool(1, 10, "redirect-loop")
	}
	nops := 1 + t.Choose(3, "n-ops")
	for i := 0; i < nops; i++ {
		cfg.Ops = append(cfg.Ops, []string{"download", "upload", "locks", "batch-only"}[t.Choose(4, "op")])
	}
	cfg.HrefOrigin = []string{"https://storage.sim", "https://api.sim", "https://api.sim:8443", "https://other.sim", "https://storage.sim:8443"}[t.Choose(5, "href-origin")]
	cfg.ActionAuth = t.Choose(2, "action-auth") == 1
	cfg.Authenticated = t.Choose(3, "authenticated") == 1
	cfg.Mode = []int{sim.ModeUniform, sim.ModePCT}[t.Choose(2, "sched-mode")]
	cfg.Concurrency = []int{1, 3}[t.Choose(2, "concurrency")]
	cfg.StartHTTP = t.Bool(1, 6, "start-http")

	// transient server trouble makes the client send requests again (the
	// verify loop re-sends the very request object it built at first)
	var f10 sim.Faults
	f10.Verify5xx = pickRate(t, "verify5xx", 1, 3)
	f10.Put5xx = pickRate(t, "put5xx", 1, 6)
	f10.Get5xx = pickRate(t, "get5xx", 1, 6)
	f10.Batch5xx = pickRate(t, "batch5xx", 1, 8)
	w := NewWorld(rc, f10)
	s := w.S
	s.Mode = cfg.Mode
	srv := w.Srv
	srv.AnyOrigin = true
	srv.Authenticated = cfg.Authenticated
	apiOrigin := "https://api.sim"
	if cfg.StartHTTP {
		apiOrigin = "http://api.sim"
	}
	srv.APIOrigin = apiOrigin
	for _, o := range c10Origins {
		w.Net.Handle(o, srv)
	}
	sec := &secrets{reg: map[string]*secretTag{}}
	srv.HrefOrigin = func(rel, oid string) string { return cfg.HrefOrigin }
	actN := 0
	if cfg.ActionAuth {
		srv.ActionAuth = func(rel, oid string) string {
			actN++
			sct := fmt.Sprintf("act%d-%s", actN, rel)
			u, _ := url.Parse(cfg.HrefOrigin)
			sec.add(sct, "action", normOrigin(u.Scheme, u.Host))
			sec.add("Bearer "+sct, "action", normOrigin(u.Scheme, u.Host))
			return "Bearer " + sct
		}
	}

	// client configuration
	home := filepath.Join(rc.Dir, "c0", "home")
	os.MkdirAll(home, 0755)
	remoteURL := apiOrigin + "/repo.git"
	extra := map[string]string{"lfs.concurrenttransfers": strconv.Itoa(cfg.Concurrency), "lfs.transfer.maxretries": "2", "lfs.transfer.maxretrydelay": "0"}
	switch cfg.Source {
	case "url-remote":
		u, _ := url.Parse(remoteURL)
		u.User = url.UserPassword("urluser", "urlsecret-remote")
		remoteURL = u.String()
		sec.add("urlsecret-remote", "url", normOrigin(u.Scheme, u.Host))
		// the LFS API may live somewhere else than the Git remote (lfs.url,
		// remote.<name>.lfsurl, .lfsconfig): the remote's password is not for it
		if k := t.Choose(4, "lfs-api-elsewhere"); k > 0 {
			split := []string{"", "https://other.sim", "https://api.sim:8443", "http://api.sim"}[k]
			if split != apiOrigin {
				apiOrigin = split
				srv.APIOrigin = split
				key := []string{"lfs.url", "remote.origin.lfsurl"}[t.Choose(2, "lfs-url-key")]
				extra[key] = split + "/repo.git/info/lfs"
			}
		}
	case "url-lfs":
		u, _ := url.Parse(apiOrigin + "/repo.git/info/lfs")
		u.User = url.UserPassword("urluser", "urlsecret-lfs")
		extra["lfs.url"] = u.String()
		sec.add("urlsecret-lfs", "url", normOrigin(u.Scheme, u.Host))
	case "netrc":
		os.WriteFile(filepath.Join(home, ".netrc"), []byte("machine api.sim login netrcuser password netrcsecret-api\nmachine storage.sim login netrcuser password netrcsecret-storage\n"), 0600)
		sec.reg["netrcsecret-api"] = &secretTag{HostOnly: "api.sim", Source: "netrc", Origins: map[string]bool{}}
		sec.reg["netrcsecret-storage"] = &secretTag{HostOnly: "storage.sim", Source: "netrc", Origins: map[string]bool{}}
	}
	if cfg.AccessBasic {
		extra["lfs."+apiOrigin+"/repo.git/info/lfs.access"] = "basic"
	}
	cl := w.NewClient(0, filepath.Join(rc.Dir, "c0"), extra)
	cl.GitEnv["remote.origin.url"] = remoteURL
	// with http.extraHeader configured every request is cloned before it is
	// sent; without it the request object built by the caller is the one on the wire
	if t.Bool(1, 2, "no-extra-header-configured") {
		delete(cl.GitEnv, "http.extraheader")
	}
	var helper *recHelper
	switch cfg.Source {
	case "helper", "multistage":
		helper = &recHelper{w: w, sec: sec, n: map[string]int{}, filled: map[string]string{}, multistage: cfg.Source == "multistage"}
		cl.API.Credentials = helper
	case "askpass":
		cl.OsEnv["GIT_ASKPASS"] = askpassScript()
	}
	// the command helper (installed for the whole worker) is switched on by a
	// flag file: git-lfs caches the process environment, so an env var set
	// here would not reach `git credential`
	flag := filepath.Join(os.Getenv("HOME"), "cmdhelper-on")
	os.Remove(flag)
	if cfg.Source == "command" {
		os.WriteFile(flag, []byte("1"), 0644)
	}
	// the client was built before OsEnv/GitEnv edits: rebuild it so that the
	// credential context sees them
	cl = rebuildClient(w, cl, helper)

	// ---- server side: redirects and authentication ------------------------------
	var redirs []*redirRec
	rSeq := 0
	hops := map[string]int{} // method+path -> redirects issued
	extra401 := map[string]int{}
	rRE := regexp.MustCompile(`(?:^|&)r=(\d+)`)
	srv.Pre = func(rec *sim.ReqRec) *sim.Resp {
		origin := rec.Scheme + "://" + rec.Host
		fromR := 0
		if m := rRE.FindStringSubmatch(rec.Query); m != nil {
			fromR, _ = strconv.Atoi(m[1])
		}
		key := rec.Method + " " + rec.Path
		if cfg.RedirectRate > 0 && (cfg.RedirectLoop || hops[key] < 6) && t.Bool(cfg.RedirectRate, 1000, "redirect?") {
			hops[key]++
			rSeq++
			target := c10Origins[t.Choose(len(c10Origins), "redirect-target")]
			status := []int{307, 301, 302, 303, 308}[t.Choose(5, "redirect-status")]
			loc := ""
			q := "?r=" + strconv.Itoa(rSeq)
			switch t.Choose(8, "location-form") {
			case 0, 1, 2, 3:
				loc = target + rec.Path + q
			case 4:
				loc = rec.Path + q // relative: same origin
				target = origin
			case 5:
				loc = "//" + strings.SplitN(target, "://", 2)[1] + rec.Path + q // scheme-relative
				target = rec.Scheme + "://" + strings.SplitN(target, "://", 2)[1]
			case 6:
				loc = []string{"http://[::1", "%zz", "://nohost", ""}[t.Choose(4, "malformed-location")]
				target = ""
			default:
				loc = target + rec.Path + q
			}
			// absolute Locations may spell the scheme in any case (RFC 3986 3.1)
			if i := strings.Index(loc, "://"); i > 0 && target != "" {
				switch t.Choose(4, "location-scheme-spelling") {
				case 1:
					loc = strings.ToUpper(loc[:i]) + loc[i:]
				case 2:
					loc = strings.ToUpper(loc[:1]) + loc[1:]
				}
			}
			rr := &redirRec{ID: rSeq, From: origin, FromR: fromR, To: loc, Status: status}
			if target != "" && strings.HasPrefix(origin, "https://") && strings.HasPrefix(target, "http://") {
				rr.Down = true
			}
			redirs = append(redirs, rr)
			srv.Fired[fmt.Sprintf("redirect.%d", status)]++
			r := sim.NewResp(status)
			if loc != "" {
				r.Header.Set("Location", loc)
			}
			r.Note = fmt.Sprintf("redirect#%d -> %s", rSeq, loc)
			return r
		}
		// authentication on the API paths
		isAPI := strings.HasPrefix(rec.Path, srv.APIPrefix+"/") || strings.HasSuffix(rec.Path, "/objects/batch")
		if isAPI && cfg.AuthRequired {
			ok := false
			for _, sct := range secretsIn(rec) {
				if tag := sec.lookup(sct); tag != nil {
					if tag.Origins[normOrigin(rec.Scheme, rec.Host)] || (tag.HostOnly != "" && tag.HostOnly == hostName(rec.Host)) {
						ok = true
					}
				}
			}
			if ok && cfg.Extra401 > 0 && extra401[key] < 4 && t.Bool(cfg.Extra401, 1000, "extra-401") {
				extra401[key]++
				ok = false
				srv.Fired["auth.extra-401"]++
			}
			if !ok {
				srv.Fired["auth.401"]++
				r := sim.JSONResp(401, []byte(`{"message":"credentials needed"}`))
				switch t.Choose(5, "401-header") {
				case 0:
					r.Header.Set("Www-Authenticate", `Basic realm="sim"`)
				case 1:
					r.Header.Set("Lfs-Authenticate", `Basic realm="sim"`)
				case 2:
					r.Header.Add("Www-Authenticate", `Bearer realm="sim"`)
					r.Header.Add("Www-Authenticate", `Basic realm="sim"`)
				case 3:
					// no challenge header at all
				default:
					r.Header.Set("Www-Authenticate", `Basic realm="sim", charset="UTF-8"`)
				}
				r.Note = "401"
				return r
			}
		}
		return nil
	}

	// ---- run ---------------------------------------------------------------------
	objs := []*Obj{}
	for i := 0; i < 2; i++ {
		b := []byte(fmt.Sprintf("c10-object-%d-%s", i, strings.Repeat("x", i*7)))
		objs = append(objs, &Obj{Idx: i, Data: b, Oid: sim.OidOf(b)})
	}
	var errs []string
	s.Run(func() {
		for oi, op := range cfg.Ops {
			s.Phase = fmt.Sprintf("op#%d %s", oi, op)
			s.Yield("main.op")
			switch op {
			case "download", "upload":
				dir := tq.Download
				if op == "upload" {
					dir = tq.Upload
				}
				man := tq.NewManifest(cl.FS, cl.API, op, "origin")
				q := tq.NewTransferQueue(dir, man, "origin", tq.WithBatchSize(2))
				s.NameInst(q, fmt.Sprintf("q%d", oi))
				for _, o := range objs {
					p, _ := cl.FS.ObjectPath(o.Oid)
					if op == "upload" {
						os.WriteFile(p, o.Data, 0644)
						delete(srv.Store, o.Oid)
					} else {
						os.Remove(p)
						srv.Store[o.Oid] = o.Data
					}
					q.Add("f"+strconv.Itoa(o.Idx), p, o.Oid, int64(len(o.Data)), false, nil)
				}
				q.Wait()
				for _, e := range q.Errors() {
					errs = append(errs, e.Error())
				}
			case "batch-only":
				man := tq.NewManifest(cl.FS, cl.API, "download", "origin")
				srv.Store[objs[0].Oid] = objs[0].Data
				_, err := tq.Batch(man, tq.Download, "origin", nil, []*tq.Transfer{{Oid: objs[0].Oid, Size: int64(len(objs[0].Data))}})
				if err != nil {
					errs = append(errs, err.Error())
				}
			case "locks":
				ep := cl.API.Endpoints.Endpoint("download", "origin")
				req, err := cl.API.NewRequest("GET", ep, "locks", nil)
				if err == nil {
					res, derr := cl.API.DoAPIRequestWithAuth("origin", req)
					if derr != nil {
						errs = append(errs, derr.Error())
					} else if res != nil {
						res.Body.Close()
					}
				}
			}
		}
		s.Phase = "returned"
	})
	rc.Res.Fired = map[string]int{}
	for k, v := range srv.Fired {
		rc.Res.Fired[k] = v
	}
	rc.Res.Nontrivial = true
	for _, r := range w.Net.Log {
		rc.Tape.Note(fmt.Sprintf("%d %s %s %d %s", r.Step, r.Method, r.URL, r.Status, r.Header.Get("Authorization")))
	}
	if kind, msg := s.Failure(); kind != "" {
		rc.Violation(kind, "%s; parked=%v", msg, s.ParkedNames())
	}
	if rc.Opts.WantSample {
		var reqs []string
		for _, r := range w.Net.Log {
			reqs = append(reqs, fmt.Sprintf("%s %s auth=%q -> %d %s", r.Method, r.URL, r.Header.Get("Authorization"), r.Status, r.Note))
			if len(reqs) > 40 {
				break
			}
		}
		rc.Res.Sample = map[string]interface{}{"config": cfg, "requests": reqs, "errors": clip(errs)}
	}
	if rc.Res.Class != "" || rc.Res.Harness != "" {
		return
	}

	// ---- oracle -------------------------------------------------------------------
	byID := map[int]*redirRec{}
	for _, r := range redirs {
		byID[r.ID] = r
	}
	for _, r := range w.Net.Log {
		origin := normOrigin(r.Scheme, r.Host)
		fromR := 0
		if m := rRE.FindStringSubmatch(r.Query); m != nil {
			fromR, _ = strconv.Atoi(m[1])
		}
		// chain analysis
		depth := 0
		startedHTTPS := r.Scheme == "https"
		for cur := fromR; cur != 0; {
			rr := byID[cur]
			if rr == nil {
				break
			}
			depth++
			startedHTTPS = strings.HasPrefix(rr.From, "https://")
			if rr.Down && cur == fromR {
				rc.Violation("https-to-http-followed", "request %s %s follows redirect #%d from %s to plain http", r.Method, r.URL, rr.ID, rr.From)
				return
			}
			cur = rr.FromR
			if depth > 50 {
				break
			}
		}
		if depth > 8 {
			rc.Violation("redirect-chain-too-long", "request %s %s is hop %d of a redirect chain", r.Method, r.URL, depth)
			return
		}
		if depth > 0 {
			rc.Probe("redirect-followed")
		}
		for _, sct := range secretsIn(r) {
			tag := sec.lookup(sct)
			if tag == nil {
				continue
			}
			rc.Probe("secret-sent")
			rc.Probe("secret-sent:" + tag.Source)
			allowed := tag.Origins[origin] || (tag.HostOnly != "" && tag.HostOnly == hostName(r.Host))
			if !allowed {
				// (an http -> https upgrade on the same host name is a change of
				// scheme and port like any other: judged)
				if r.Scheme == "https" && strings.HasSuffix(origin, ":443") && tag.Origins["http://"+hostName(r.Host)+":80"] {
					rc.Probe("http-to-https-upgrade-kept-credentials")
				}
				var al []string
				for o := range tag.Origins {
					al = append(al, o)
				}
				if tag.HostOnly != "" {
					al = append(al, "host "+tag.HostOnly)
				}
				sort.Strings(al)
				rc.Violation("credential-sent-to-wrong-host", "%s %s carries the %s credential %q which was obtained for %v (redirect depth %d)", r.Method, r.URL, tag.Source, sct, al, depth)
				return
			}
			if r.Scheme == "http" && depth > 0 && startedHTTPS {
				rc.Violation("credential-on-http-after-https", "%s %s carries a credential on plain http in a chain that started at https", r.Method, r.URL)
				return
			}
		}
	}
	if helper != nil {
		if len(helper.problems) > 0 {
			rc.Violation("helper-bookkeeping", "%s", helper.problems[0])
			return
		}
		if helper.Fills > 0 {
			rc.Probe("helper-fill")
		}
		if helper.Rejects > 0 {
			rc.Probe("helper-reject")
		}
	}
	_ = time.Second
	_ = http.StatusOK
}

// rebuildClient re-creates the API client after GitEnv / OsEnv edits (the
// credential context reads netrc and askpass settings at construction).
func rebuildClient(w *World, old *Client, helper *recHelper) *Client {
	cl := w.newClientFrom(old.ID, old.Dir, old.GitEnv, old.OsEnv)
	if helper != nil {
		cl.API.Credentials = helper
	}
	return cl
}

var askpassPath string

// askpassScript writes (once per worker) a GIT_ASKPASS program answering with
// a secret that names the origin it was asked for.
func askpassScript() string {
	if askpassPath != "" {
		return askpassPath
	}
	p := filepath.Join(scratchRoot(), "askpass.sh")
	script := `#!/bin/sh
# prompt looks like: Username for "https://api.sim" / Password for "https://user@api.sim"
u=$(printf '%s' "$1" | sed -e 's/^[^"'"'"']*["'"'"']//' -e 's/["'"'"'].*$//')
proto=${u%%://*}
rest=${u#*://}
rest=${rest#*@}
host=${rest%%/*}
case "$1" in
Username*) echo askuser ;;
*) echo "ask-$proto-$host" | tr ':' '_' ;;
esac
`
	os.WriteFile(p, []byte(script), 0755)
	askpassPath = p
	return p
}
