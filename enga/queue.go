package enga

import (
	"fmt"
	"github.com/git-lfs/git-lfs/v3/creds"
	"os"
	"path/filepath"
	"strconv"
	"strings"
	"time"

	"github.com/git-lfs/git-lfs/v3/git"
	"github.com/git-lfs/git-lfs/v3/tq"

	"verif/sim"
)

// AddOp is one call of TransferQueue.Add in the workload.
type AddOp struct {
	Obj       int  `json:"obj"`
	CallerErr bool `json:"caller_err,omitempty"`
	Missing   bool `json:"missing,omitempty"` // upload: caller flags the source as missing
	Name      string
}

// QCfg is the swarm configuration of one queue run, drawn from the tape.
type QCfg struct {
	Upload        bool        `json:"upload"`
	Sizes         []int       `json:"sizes"`
	Adds          []AddOp     `json:"adds"`
	Watchers      int         `json:"watchers"`
	StallMs       []int       `json:"watcher_stall_ms"`
	BatchSize     int         `json:"batch_size"`
	BufferDepth   int         `json:"buffer_depth"`
	Concurrency   int         `json:"concurrency"`
	MaxRetries    int         `json:"max_retries"`     // 0 = unset
	MaxRetryDelay int         `json:"max_retry_delay"` // -1 = unset
	Scripted      bool        `json:"scripted_adapter"`
	Script        ScriptCfg   `json:"script"`
	Faults        sim.Faults  `json:"faults"`
	LatencyMaxMs  int         `json:"latency_max_ms"`
	DropBefore    int         `json:"drop_before"`
	DropAfter     int         `json:"drop_after"`
	Mode          int         `json:"sched_mode"`
	Starve        string      `json:"starve,omitempty"`
	ServerHas     []bool      `json:"server_has"`
	LocalHas      []bool      `json:"local_has"`
	DryRun        bool        `json:"dry_run,omitempty"`
	ExpiresInS    int         `json:"expires_in_s,omitempty"`
	PartState     map[int]int `json:"part_state,omitempty"`
	PreFinal      map[int]int `json:"pre_final,omitempty"` // garbage already at the final path
	RefName       string      `json:"ref_name,omitempty"`
	OfferHeaders  bool        `json:"offer_extra_action_headers,omitempty"`
	// ActionAuth: every action carries its own Authorization header, which
	// the storage may refuse with 401 (C18)
	ActionAuth bool `json:"actions_carry_authorization,omitempty"`
}

// Delivery is one Transfer received on a Watch() channel.
type Delivery struct {
	Watcher int
	Oid     string
	Name    string
	Step    int
	At      time.Duration
}

// QRun is the recorded history of a queue run, read by the oracles.
type QRun struct {
	Cfg        QCfg
	Objs       []*Obj
	W          *World
	Client     *Client
	Deliveries []Delivery
	Attempts   []*Attempt // from the attempt.start/end events (all adapters)
	Scripted   []*Attempt // the scripted adapter's own record (exact outcome classes)
	Errors     []string
	Events     []sim.Event
	AddsDone   int
	WaitDone   bool
	Paths      map[string]string // oid -> final path
	Pre        map[string][]byte // oid -> content at final path before the run (nil = absent)
	EffRetries int
	EffDelay   int
}

type rateSet []int

// pickRate: a fault kind is off in most runs, else low/medium/high.
func pickRate(t *sim.Tape, label string, onNum, onDen int) int {
	if !t.Bool(onNum, onDen, label+"?") {
		return 0
	}
	return []int{60, 200, 500}[t.Choose(3, label+"-rate")]
}

// QProfile biases the swarm for a property.
type QProfile struct {
	NoFaults     bool
	ForceReal    bool // real basic adapters only
	ForceScript  bool
	ForceDown    bool
	ForceUp      bool
	BodyFaults   bool // enable storage body faults (C02)
	ShapeFaults  bool // batch-shape faults (C06)
	TimeFaults   bool // 429 / expiry emphasis (C15)
	PartStates   bool // pre-existing .part files (C02)
	Corrupt      bool // single-field corruption of batch responses
	RefNames     bool // give the queue a remote ref (C18)
	Redirects    bool // API POSTs answered with 307/308 to the same endpoint (C18)
	MaxObjs      int
	MaxAdds      int
	ShapeExclude map[string]bool
}

func GenQCfg(t *sim.Tape, p QProfile) QCfg {
	var c QCfg
	c.Upload = !p.ForceDown && t.Choose(2, "direction") == 1
	if p.ForceUp {
		c.Upload = true
	}
	maxObjs := p.MaxObjs
	if maxObjs == 0 {
		maxObjs = 6
	}
	n := 1 + t.Choose(maxObjs, "n-objs")
	sizes := []int{1, 0, 2, 3, 10, 100, 5000, 70000}
	c.Sizes = make([]int, n)
	for i := range c.Sizes {
		c.Sizes[i] = sizes[t.Choose(len(sizes), "obj-size")]
	}
	maxAdds := p.MaxAdds
	if maxAdds == 0 {
		maxAdds = 12
	}
	// every object added at least once (in index order), then extra repeats
	for i := 0; i < n; i++ {
		c.Adds = append(c.Adds, AddOp{Obj: i})
	}
	extra := t.Choose(maxAdds-n+1, "extra-adds")
	if maxAdds-n < 0 {
		extra = 0
	}
	for i := 0; i < extra; i++ {
		op := AddOp{Obj: t.Choose(n, "add-obj")}
		pos := t.Choose(len(c.Adds)+1, "add-pos")
		c.Adds = append(c.Adds[:pos], append([]AddOp{op}, c.Adds[pos:]...)...)
	}
	c.ServerHas = make([]bool, n)
	c.LocalHas = make([]bool, n)
	for i := 0; i < n; i++ {
		if c.Upload {
			c.ServerHas[i] = t.Bool(1, 5, "server-has")
			c.LocalHas[i] = !t.Bool(1, 8, "local-missing")
		} else {
			c.ServerHas[i] = !t.Bool(1, 8, "server-lacks")
		}
	}
	for i := range c.Adds {
		c.Adds[i].Name = fmt.Sprintf("file-%d.bin", i)
		if t.Bool(1, 25, "caller-err") {
			c.Adds[i].CallerErr = true
		}
		if c.Upload && !c.LocalHas[c.Adds[i].Obj] {
			c.Adds[i].Missing = t.Bool(3, 4, "flag-missing")
		}
	}
	c.Watchers = []int{1, 0, 2}[t.Choose(3, "watchers")]
	c.StallMs = make([]int, c.Watchers)
	for i := range c.StallMs {
		if t.Bool(1, 4, "watcher-stalls") {
			c.StallMs[i] = 1 + t.Choose(3000, "stall-ms")
		}
	}
	c.BatchSize = []int{100, 1, 2, 3, 4}[t.Choose(5, "batch-size")]
	c.BufferDepth = []int{0, 1, 2, 5}[t.Choose(4, "buffer-depth")]
	c.Concurrency = []int{3, 1, 2, 8}[t.Choose(4, "concurrency")]
	c.MaxRetries = []int{0, 1, 2, 3, 8}[t.Choose(5, "max-retries")]
	c.MaxRetryDelay = []int{-1, 0, 1, 10}[t.Choose(4, "max-retry-delay")]
	switch {
	case p.ForceReal:
	case p.ForceScript:
		c.Scripted = true
	default:
		c.Scripted = t.Choose(2, "adapter-family") == 1
	}
	c.Mode = []int{sim.ModeUniform, sim.ModeUniform, sim.ModePCT, sim.ModeStarve}[t.Choose(4, "sched-mode")]
	if c.Mode == sim.ModeStarve {
		c.Starve = []string{"watcher", "collect", ".w", "worker", "errc", "handler", "main", "batch"}[t.Choose(8, "starve-class")]
	}
	c.LatencyMaxMs = []int{0, 5, 300, 4000}[t.Choose(4, "latency")]
	if p.RefNames {
		c.RefName = []string{"", "refs/heads/main", "refs/heads/feature/with space", "refs/heads/qu\"ote\\back", "refs/heads/ünï-çødé", "refs/tags/v1.0"}[t.Choose(6, "ref-name")]
	}
	if p.PartStates {
		c.PartState = map[int]int{}
		c.PreFinal = map[int]int{}
		for i := 0; i < n; i++ {
			if st := t.Choose(9, "part-state"); st > 0 && st <= 7 {
				c.PartState[i] = st
			}
			if t.Bool(1, 8, "pre-final-garbage") {
				c.PreFinal[i] = 1 + t.Choose(2, "pre-final-kind")
			}
		}
		if c.Watchers == 0 {
			c.Watchers = 1
			c.StallMs = []int{0}
		}
	}
	if p.NoFaults {
		return c
	}
	f := &c.Faults
	f.RetryAfterKinds = 1 + t.Choose(15, "retry-after-kinds")
	f.RetryAfterMax = []int{0, 2, 30, 120}[t.Choose(4, "retry-after-max")]
	// batch call
	f.Batch429 = pickRate(t, "batch429", 1, 4)
	f.Batch5xx = pickRate(t, "batch5xx", 1, 6)
	f.Batch4xx = pickRate(t, "batch4xx", 1, 10)
	f.BatchBadJSON = pickRate(t, "batchbadjson", 1, 12)
	f.BatchHashAlgo = pickRate(t, "batchhashalgo", 1, 12)
	f.BatchWrongTransfer = pickRate(t, "batchwrongtransfer", 1, 12)
	if p.Corrupt {
		f.BatchCorrupt = pickRate(t, "batchcorrupt", 1, 2)
	}
	c.DropBefore = pickRate(t, "dropbefore", 1, 8)
	c.DropAfter = pickRate(t, "dropafter", 1, 8)
	// object shapes
	f.ObjError = pickRate(t, "objerror", 1, 4)
	f.ObjNoAction = pickRate(t, "objnoaction", 1, 6)
	f.ObjExpired = pickRate(t, "objexpired", 1, 5)
	f.ObjSoonExpire = pickRate(t, "objsoon", 1, 5)
	if p.Redirects {
		f.PostRedirect = pickRate(t, "postredirect", 1, 4)
	}
	if p.ShapeFaults {
		f.ObjOmit = pickRate(t, "objomit", 1, 4)
		f.ObjTwice = pickRate(t, "objtwice", 1, 4)
		f.ObjUnknown = pickRate(t, "objunknown", 1, 4)
		f.ObjForeign = pickRate(t, "objforeign", 1, 4)
	}
	for k := range p.ShapeExclude {
		switch k {
		case "obj.omit":
			f.ObjOmit = 0
		case "obj.twice":
			f.ObjTwice = 0
		case "obj.unknown":
			f.ObjUnknown = 0
		}
	}
	if t.Bool(1, 4, "expires-in?") {
		c.ExpiresInS = []int{3600, 6, 4, 60}[t.Choose(4, "expires-in")]
	}
	if c.Scripted {
		c.Script.Retriable = pickRate(t, "sa-retriable", 1, 2)
		c.Script.Fatal = pickRate(t, "sa-fatal", 1, 4)
		c.Script.Later = pickRate(t, "sa-later", 1, 3)
		c.Script.Unprocessable = pickRate(t, "sa-422", 1, 6)
		c.Script.LaterMaxS = []int{0, 2, 30, 120}[t.Choose(4, "sa-later-max")]
		c.Script.LatencyMaxMs = []int{0, 5, 300, 20000}[t.Choose(4, "sa-latency")]
		c.Script.BeginErr = t.Bool(1, 30, "sa-begin-err")
	} else {
		f.Get429 = pickRate(t, "get429", 1, 4)
		f.Get5xx = pickRate(t, "get5xx", 1, 5)
		f.Get4xx = pickRate(t, "get4xx", 1, 8)
		f.Put429 = pickRate(t, "put429", 1, 4)
		f.Put5xx = pickRate(t, "put5xx", 1, 5)
		f.Put4xx = pickRate(t, "put4xx", 1, 8)
		f.Put422 = pickRate(t, "put422", 1, 8)
		f.PutLostReply = pickRate(t, "putlost", 1, 8)
		f.Verify5xx = pickRate(t, "verify5xx", 1, 6)
		f.Verify4xx = pickRate(t, "verify4xx", 1, 10)
		if p.BodyFaults || t.Bool(1, 3, "body-faults?") {
			f.GetPrefix = pickRate(t, "getprefix", 1, 3)
			f.GetExtra = pickRate(t, "getextra", 1, 4)
			f.GetFlip = pickRate(t, "getflip", 1, 4)
			f.GetOther = pickRate(t, "getother", 1, 5)
			f.GetCut = pickRate(t, "getcut", 1, 3)
			f.GetNoLength = pickRate(t, "getnolength", 1, 4)
			f.GetBurst = pickRate(t, "getburst", 1, 4)
			f.RangeIgnore = pickRate(t, "rangeignore", 1, 4)
			f.Range416 = pickRate(t, "range416", 1, 4)
			f.RangeWrongStart = pickRate(t, "rangewrongstart", 1, 4)
			f.RangeNoHeader = pickRate(t, "rangenoheader", 1, 5)
			f.RangeBadHeader = pickRate(t, "rangebadheader", 1, 5)
			f.RangeWrongSuffix = pickRate(t, "rangewrongsuffix", 1, 4)
		}
	}
	return c
}

func clientSettings(c *QCfg) map[string]string {
	m := map[string]string{"lfs.concurrenttransfers": strconv.Itoa(c.Concurrency)}
	if c.MaxRetries > 0 {
		m["lfs.transfer.maxretries"] = strconv.Itoa(c.MaxRetries)
	}
	if c.MaxRetryDelay >= 0 {
		m["lfs.transfer.maxretrydelay"] = strconv.Itoa(c.MaxRetryDelay)
	}
	return m
}

// RunQueue executes the queue workload described by cfg and records its
// history. It must be called inside a bubble (from a Workload).
func RunQueue(rc *RunCtx, cfg QCfg) *QRun {
	w := NewWorld(rc, cfg.Faults)
	s := w.S
	s.Mode = cfg.Mode
	s.StarveSub = cfg.Starve
	w.Net.LatencyMaxMs = cfg.LatencyMaxMs
	w.Net.DropBefore = cfg.DropBefore
	w.Net.DropAfter = cfg.DropAfter
	w.Srv.ExpiresInS = cfg.ExpiresInS
	w.Srv.OfferExtraHeaders = cfg.OfferHeaders
	if cfg.ActionAuth {
		n := 0
		w.Srv.Storage401 = true
		w.Srv.ActionAuth = func(rel, oid string) string {
			n++
			return fmt.Sprintf("RemoteAuth token-%d-%s", n, rel)
		}
	}
	qr := &QRun{Cfg: cfg, W: w, Paths: map[string]string{}, Pre: map[string][]byte{}}
	// objects
	qr.Objs = make([]*Obj, len(cfg.Sizes))
	seen := map[string]bool{}
	for i, sz := range cfg.Sizes {
		b := make([]byte, sz)
		r := sim.NewSplitMix(uint64(i+1)*0x9e3779b97f4a7c15 + uint64(sz))
		for k := 0; k < len(b); k += 8 {
			v := r.Next()
			for j := 0; j < 8 && k+j < len(b); j++ {
				b[k+j] = byte(v >> (8 * uint(j)))
			}
		}
		if sz > 0 {
			b[0] = byte('a' + i)
		}
		o := &Obj{Idx: i, Data: b, Oid: sim.OidOf(b)}
		for seen[o.Oid] {
			o.Data = append(o.Data, byte('A'+i))
			o.Oid = sim.OidOf(o.Data)
		}
		seen[o.Oid] = true
		qr.Objs[i] = o
	}
	cl := w.NewClient(0, filepath.Join(rc.Dir, "c0"), clientSettings(&cfg))
	if cfg.ActionAuth {
		// the user has credentials of their own for every host
		cl.API.Credentials = staticCreds{}
	}
	qr.Client = cl
	dirName := "download"
	dir := tq.Download
	if cfg.Upload {
		dirName = "upload"
		dir = tq.Upload
	}
	for i, o := range qr.Objs {
		if cfg.ServerHas[i] {
			w.Srv.Store[o.Oid] = o.Data
		}
		p, err := cl.FS.ObjectPath(o.Oid)
		if err != nil {
			panic(sim.HarnessError{Msg: err.Error()})
		}
		qr.Paths[o.Oid] = p
		if cfg.Upload && cfg.LocalHas[i] {
			if err := os.WriteFile(p, o.Data, 0644); err != nil {
				panic(sim.HarnessError{Msg: err.Error()})
			}
		}
		if k := cfg.PreFinal[i]; k > 0 && !cfg.Upload {
			g := []byte("garbage-of-wrong-size")
			if k == 2 && len(o.Data) > 1 {
				g = append([]byte(nil), o.Data[:len(o.Data)-1]...)
			}
			os.WriteFile(p, g, 0644)
		}
		if b, err := os.ReadFile(p); err == nil {
			qr.Pre[o.Oid] = b
		}
	}
	preparePartFiles(qr)
	cl.Manifest = tq.NewManifest(cl.FS, cl.API, dirName, "origin")
	if cfg.Scripted {
		w.Srv.ScriptedAdapter = ScriptedName
		said := 0
		cl.Manifest.RegisterNewAdapterFunc(ScriptedName, dir, func(name string, d tq.Direction) tq.Adapter {
			a := &scriptedAdapter{w: w, cfg: cfg.Script, dir: d, id: said, rec: &qr.Scripted}
			said++
			return a
		})
	}
	qr.EffRetries = cl.Manifest.MaxRetries()
	qr.EffDelay = cl.Manifest.MaxRetryDelay()

	s.Run(func() {
		s.Phase = "NewTransferQueue"
		opts := []tq.Option{tq.WithBatchSize(cfg.BatchSize), tq.DryRun(cfg.DryRun)}
		if cfg.BufferDepth > 0 {
			opts = append(opts, tq.WithBufferDepth(cfg.BufferDepth))
		}
		if cfg.RefName != "" {
			opts = append(opts, tq.RemoteRef(git.ParseRef(cfg.RefName, "")))
		}
		q := tq.NewTransferQueue(dir, cl.Manifest, "origin", opts...)
		s.NameInst(q, "q0")
		for wi := 0; wi < cfg.Watchers; wi++ {
			ch := q.Watch()
			wi := wi
			s.Go(fmt.Sprintf("watcher%d", wi), func() {
				for t := range ch {
					s.Yield("w.got")
					qr.Deliveries = append(qr.Deliveries, Delivery{Watcher: wi, Oid: t.Oid, Name: t.Name, Step: s.Step, At: time.Since(w.Start)})
					if cfg.StallMs[wi] > 0 {
						s.Sleep(time.Duration(cfg.StallMs[wi])*time.Millisecond, "w.stall")
					}
				}
			})
		}
		for i, op := range cfg.Adds {
			s.Phase = fmt.Sprintf("Add#%d", i)
			s.Yield("main.add")
			o := qr.Objs[op.Obj]
			var err error
			if op.CallerErr {
				err = fmt.Errorf("caller-side error for %s", op.Name)
			}
			q.Add(op.Name, qr.Paths[o.Oid], o.Oid, int64(len(o.Data)), op.Missing, err)
			qr.AddsDone = i + 1
		}
		s.Phase = "Wait"
		q.Wait()
		qr.WaitDone = true
		s.Phase = "returned"
		for _, e := range q.Errors() {
			qr.Errors = append(qr.Errors, e.Error())
		}
	})
	qr.Events = s.Events()
	qr.Attempts = attemptsFromEvents(qr.Events)
	rc.Res.Fired = map[string]int{}
	for k, v := range w.Srv.Fired {
		rc.Res.Fired[k] = v
	}
	for k, v := range w.Net.Fired {
		rc.Res.Fired[k] = v
	}
	if kind, msg := s.Failure(); kind != "" {
		rc.Violation(kind, "%s; parked=%v", msg, s.ParkedNames())
	}
	return qr
}

func attemptsFromEvents(ev []sim.Event) []*Attempt {
	var out []*Attempt
	open := map[string]*Attempt{}
	for _, e := range ev {
		switch e.Kind {
		case "attempt.start":
			a := &Attempt{Oid: e.Oid, Worker: e.G, StartStep: e.Step, Start: e.At, Open: true}
			open[e.G] = a
			out = append(out, a)
		case "attempt.end":
			a := open[e.G]
			if a == nil {
				continue
			}
			a.Open = false
			a.End = e.At
			a.EndStep = e.Step
			a.Outcome = "ok"
			if len(e.Args) > 1 && e.Args[1] != nil {
				a.Outcome = "error: " + fmt.Sprint(e.Args[1])
			}
			delete(open, e.G)
		}
	}
	return out
}

// preparePartFiles creates pre-existing incomplete/<oid>.part states (C02).
func preparePartFiles(qr *QRun) {
	if len(qr.Cfg.PartState) == 0 {
		return
	}
	inc := filepath.Join(qr.Client.FS.LFSStorageDir, "incomplete")
	os.MkdirAll(inc, 0755)
	for idx, st := range qr.Cfg.PartState {
		o := qr.Objs[idx]
		var b []byte
		n := len(o.Data)
		switch st {
		case 1: // valid prefix, half
			b = append(b, o.Data[:n/2]...)
		case 2: // garbage of same length
			b = []byte(strings.Repeat("x", n))
		case 3: // longer than object
			b = append(append(b, o.Data...), []byte("tail")...)
		case 4: // size-1 valid prefix
			if n > 0 {
				b = append(b, o.Data[:n-1]...)
			}
		case 5: // exactly the object
			b = append(b, o.Data...)
		case 6: // one byte valid prefix
			if n > 0 {
				b = append(b, o.Data[:1]...)
			}
		case 7: // garbage prefix (wrong bytes, shorter)
			b = []byte(strings.Repeat("y", n/2))
		}
		os.WriteFile(filepath.Join(inc, o.Oid+".part"), b, 0644)
	}
}

// Sample renders a run for the evidence file.
func (qr *QRun) Sample(rc *RunCtx) map[string]interface{} {
	var reqs []string
	for _, r := range qr.W.Net.Log {
		reqs = append(reqs, fmt.Sprintf("t=%v %s %s %s -> %d %s", r.At, r.G, r.Method, r.Path, r.Status, r.Note))
		if len(reqs) >= 40 {
			break
		}
	}
	return map[string]interface{}{
		"seed": rc.Tape.Seed, "config": qr.Cfg, "requests": reqs,
		"deliveries": len(qr.Deliveries), "errors": qr.Errors, "fired": rc.Res.Fired,
		"steps": qr.W.S.Step, "outcome": rc.Res.Class,
	}
}

// staticCreds fills the same user credentials for any host.
type staticCreds struct{}

func (staticCreds) Fill(in creds.Creds) (creds.Creds, error) {
	out := creds.Creds{}
	for k, v := range in {
		out[k] = v
	}
	out["username"] = []string{"alice"}
	out["password"] = []string{"users-own-secret"}
	return out, nil
}
func (staticCreds) Approve(creds.Creds) error { return nil }
func (staticCreds) Reject(creds.Creds) error  { return nil }
