package enga

import (
	"bytes"
	"fmt"
	"io"
	"os"
	"os/exec"
	"path/filepath"
	"strings"

	"github.com/git-lfs/git-lfs/v3/commands"
	"github.com/git-lfs/git-lfs/v3/config"
	"github.com/git-lfs/git-lfs/v3/lfs"
	"github.com/git-lfs/git-lfs/v3/verifhook"

	"verif/sim"
)

// ---- scripted reader -------------------------------------------------------

// ChunkReader delivers data in the scripted chunk sizes (the last size
// repeats); it is the simulated pipe / packet layer in front of a filter.
type ChunkReader struct {
	Data         []byte
	Sizes        []int
	EOFWithData  bool // deliver the final bytes together with io.EOF
	pos, i, used int
	Reads        int
}

func (r *ChunkReader) Read(p []byte) (int, error) {
	r.Reads++
	if r.pos >= len(r.Data) {
		return 0, io.EOF
	}
	if len(p) == 0 {
		return 0, nil
	}
	sz := 1 << 30
	if len(r.Sizes) > 0 {
		k := r.i
		if k >= len(r.Sizes) {
			k = len(r.Sizes) - 1
		}
		sz = r.Sizes[k] - r.used
	}
	n := len(r.Data) - r.pos
	if n > sz {
		n = sz
	}
	if n > len(p) {
		n = len(p)
	}
	copy(p, r.Data[r.pos:r.pos+n])
	r.pos += n
	r.used += n
	if len(r.Sizes) > 0 {
		k := r.i
		if k >= len(r.Sizes) {
			k = len(r.Sizes) - 1
		}
		if r.used >= r.Sizes[k] {
			r.i++
			r.used = 0
		}
	}
	if r.pos >= len(r.Data) && r.EOFWithData {
		return n, io.EOF
	}
	return n, nil
}

// GenChunks draws a chunking for n bytes; marks are offsets at which a chunk
// boundary is especially interesting.
func GenChunks(t *sim.Tape, n int, marks []int) (sizes []int, eofWithData bool) {
	eofWithData = t.Choose(2, "eof-with-data") == 1
	switch t.Choose(6, "chunk-style") {
	case 0: // one chunk
		return nil, eofWithData
	case 1: // first boundary at/around a mark, then everything
		if len(marks) == 0 {
			return nil, eofWithData
		}
		m := marks[t.Choose(len(marks), "mark")] + t.Choose(3, "mark-delta") - 1
		if m < 1 {
			m = 1
		}
		return []int{m, 1 << 30}, eofWithData
	case 2: // fixed size
		fixed := []int{1, 2, 3, 7, 64, 100, 129, 130, 131, 512, 1023, 1024, 1025, 4096, 65515, 65516, 65517}
		return []int{fixed[t.Choose(len(fixed), "fixed-chunk")]}, eofWithData
	case 3: // boundary at a mark, then fixed small chunks
		if len(marks) == 0 {
			return []int{1 + t.Choose(200, "small")}, eofWithData
		}
		m := marks[t.Choose(len(marks), "mark")]
		if m < 1 {
			m = 1
		}
		return []int{m, 1 + t.Choose(5000, "tail-chunk")}, eofWithData
	case 4: // a few random sizes
		k := 1 + t.Choose(6, "n-sizes")
		for i := 0; i < k; i++ {
			sizes = append(sizes, 1+t.Choose(70000, "rand-chunk"))
		}
		return sizes, eofWithData
	default: // small random sizes around the sniffing window
		k := 1 + t.Choose(8, "n-sizes")
		for i := 0; i < k; i++ {
			sizes = append(sizes, 1+t.Choose(300, "small-chunk"))
		}
		return sizes, eofWithData
	}
}

// ---- repository fixture ------------------------------------------------------

type streamFix struct {
	work string
	git  string
}

var sfix *streamFix

type exitPanic struct{ code int }

func getStreamFix() *streamFix {
	if sfix != nil {
		return sfix
	}
	root := filepath.Join(scratchRoot(), "streamrepo")
	os.RemoveAll(root)
	os.MkdirAll(root, 0755)
	cmd := exec.Command("git", "init", "-q", root)
	cmd.Env = append(os.Environ(), "GIT_CONFIG_NOSYSTEM=1")
	if out, err := cmd.CombinedOutput(); err != nil {
		panic(sim.HarnessError{Msg: fmt.Sprintf("git init: %v %s", err, out)})
	}
	sfix = &streamFix{work: root, git: filepath.Join(root, ".git")}
	return sfix
}

func (f *streamFix) reset() *config.Configuration {
	return f.resetWith(false)
}

// resetWith optionally sets GIT_LFS_PROGRESS (an absolute log path), which
// switches the filters to their progress-reporting copy path.
func (f *streamFix) resetWith(progress bool) *config.Configuration {
	if progress {
		os.Setenv("GIT_LFS_PROGRESS", filepath.Join(filepath.Dir(f.work), "progress.log"))
	} else {
		os.Unsetenv("GIT_LFS_PROGRESS")
	}
	return f.reset0()
}

func (f *streamFix) reset0() *config.Configuration {
	os.RemoveAll(filepath.Join(f.git, "lfs"))
	ents, _ := os.ReadDir(f.work)
	for _, e := range ents {
		if e.Name() != ".git" {
			os.RemoveAll(filepath.Join(f.work, e.Name()))
		}
	}
	os.Chdir(f.work)
	cfg := config.NewIn(f.work, f.git)
	commands.VerifSetConfig(cfg)
	return cfg
}

// storeContents lists the local object store: oid -> content.
func (f *streamFix) storeContents() map[string][]byte {
	out := map[string][]byte{}
	root := filepath.Join(f.git, "lfs", "objects")
	filepath.Walk(root, func(p string, info os.FileInfo, err error) error {
		if err == nil && info.Mode().IsRegular() {
			b, _ := os.ReadFile(p)
			out[filepath.Base(p)] = b
		}
		return nil
	})
	return out
}

// callExit runs fn with os.Exit in command code turned into a panic that is
// reported as (exited, code).
func callExit(fn func()) (exited bool, code int) {
	verifhook.ExitFn = func(c int) { panic(exitPanic{c}) }
	defer func() {
		verifhook.ExitFn = nil
		if r := recover(); r != nil {
			if e, ok := r.(exitPanic); ok {
				exited, code = true, e.code
				return
			}
			panic(r)
		}
	}()
	fn()
	return
}

// ---- payloads ---------------------------------------------------------------

func pseudo(n int, seed uint64, text bool) []byte {
	b := make([]byte, n)
	r := sim.NewSplitMix(seed)
	for k := 0; k < n; k += 8 {
		v := r.Next()
		for j := 0; j < 8 && k+j < n; j++ {
			c := byte(v >> (8 * uint(j)))
			if text {
				c = textAlphabet[int(c)%len(textAlphabet)]
			}
			b[k+j] = c
		}
	}
	return b
}

func canonicalPointer(oid string, size int64) string {
	return fmt.Sprintf("version https://git-lfs.github.com/spec/v1\noid sha256:%s\nsize %d\n", oid, size)
}

// GenPointerish draws an input from the pointer / look-alike classes of C08
// and returns it with the offsets worth cutting at.
func GenPointerish(t *sim.Tape) (data []byte, marks []int, class string) {
	oid := sim.OidOf([]byte(fmt.Sprintf("target-%d", t.Choose(50, "ptr-target"))))
	size := int64([]int{12345, 0, 1, 7, 1 << 40}[t.Choose(5, "ptr-size")])
	canon := canonicalPointer(oid, size)
	switch t.Choose(9, "ptr-class") {
	case 0:
		return []byte(canon), []int{len(canon), len(canon) - 1, 10}, "canonical-pointer"
	case 1:
		v := []string{
			strings.TrimSuffix(canon, "\n"),
			canon + "\n",
			"\n" + canon,
			strings.ReplaceAll(canon, "\n", "\r\n"),
			strings.Replace(canon, "https://git-lfs.github.com/spec/v1", "http://git-media.io/v/2", 1),
			strings.Replace(canon, "https://git-lfs.github.com/spec/v1", "https://hawser.github.com/spec/v1", 1),
			fmt.Sprintf("version https://git-lfs.github.com/spec/v1\next-0-foo sha256:%s\noid sha256:%s\nsize %d\n", sim.OidOf([]byte("ext")), oid, size),
			fmt.Sprintf("oid sha256:%s\nsize %d\nversion https://git-lfs.github.com/spec/v1\n", oid, size),
			canon + "   ",
			strings.ToUpper(canon[:0]) + strings.Replace(canon, oid, strings.ToUpper(oid), 1),
		}
		s := v[t.Choose(len(v), "ptr-variant")]
		return []byte(s), []int{len(s), len(canon), 10}, "pointer-variant"
	case 2:
		extra := []string{"x", "extra line\n", "\x00", "size 5\n", "more: stuff\n", "\n\n\nhello",
			// well-formed lines in the wrong place
			"ext-0-foo sha256:" + sim.OidOf([]byte("ext")) + "\n", "version https://git-lfs.github.com/spec/v1\n", "oid sha256:" + oid + "\n"}[t.Choose(9, "ptr-extra")]
		s := canon + extra
		return []byte(s), []int{len(canon), len(canon) - 1, len(s)}, "pointer-plus-extra"
	case 3:
		total := []int{1023, 1024, 1025, 1500}[t.Choose(4, "pad-total")]
		pad := []string{" ", "\n", "x", "\x00"}[t.Choose(4, "pad-char")]
		s := canon + strings.Repeat(pad, total-len(canon))
		return []byte(s), []int{len(canon), 1023, 1024}, "pointer-padded"
	case 4:
		n := []int{2000, 3600, 70000, 200000}[t.Choose(4, "tail-len")]
		tail := pseudo(n, uint64(n)+7, t.Choose(2, "tail-text") == 1)
		pre := canon
		if t.Choose(2, "prefix-no-nl") == 1 {
			pre = strings.TrimSuffix(canon, "\n")
			// without the newline the next byte must not extend the size digits
			tail[0] = '\n'
		}
		s := append([]byte(pre), tail...)
		return s, []int{len(pre), len(pre) + 1, 1024, 65516}, "pointer-prefix-then-content"
	case 5:
		v := []string{"version https://git-lfs.github.com/spec/v1\n", "version https://git-lfs.github.com/spec/v1\noid sha256:zz\n", "oid sha256:" + oid + "\n", "version 1\noid sha256:" + oid + "\nsize 3\n", canon[:len(canon)/2]}
		s := v[t.Choose(len(v), "alike")]
		return []byte(s), []int{len(s), 20}, "not-quite-pointer"
	case 6:
		if t.Choose(2, "small-kind") == 1 {
			ws := []string{"\n", " ", "\r\n", "\n\n\n", "\t", " \n \n", strings.Repeat(" ", 1023), strings.Repeat("\n", 1024)}[t.Choose(8, "whitespace-form")]
			return []byte(ws), []int{len(ws), 1}, "whitespace-only"
		}
		n := []int{1, 5, 100, 1023}[t.Choose(4, "small-len")]
		return pseudo(n, uint64(n)+3, false), []int{n, 1}, "small-binary"
	case 7:
		return nil, nil, "empty"
	default:
		// two pointers back to back
		s := canon + canon
		return []byte(s), []int{len(canon)}, "two-pointers"
	}
}

// GenContent draws an input from the content classes of C01.
func GenContent(t *sim.Tape) (data []byte, marks []int, class string) {
	sizes := []int{0, 1, 2, 100, 1023, 1024, 1025, 4096, 65515, 65516, 65517, 131031, 131032, 131033, 300000, 2500000}
	// multi-MB payloads are rare: they dominate run time
	k := t.Choose(len(sizes)*4, "content-size")
	n := sizes[k%len(sizes)]
	if n == 2500000 && k >= len(sizes) {
		n = 5000
	}
	kind := t.Choose(5, "content-kind")
	var b []byte
	switch kind {
	case 4:
		// whitespace only: still content, never "empty"
		ws := []string{"\n", " ", "\r\n", "\t\n"}[t.Choose(4, "ws-unit")]
		if n == 0 {
			n = 1
		}
		b = []byte(strings.Repeat(ws, n/len(ws)+1))[:n]
		class = "whitespace-only"
	case 0:
		b = pseudo(n, uint64(n)+11, false)
		class = "binary"
	case 1:
		b = pseudo(n, uint64(n)+13, true)
		class = "text-crlf-mix"
	case 2:
		b = bytes.Repeat([]byte("line of text\r\n"), n/14+1)[:n]
		class = "crlf"
	default:
		// starts like a pointer
		p := []byte(canonicalPointer(sim.OidOf([]byte("x")), 5))
		b = append(p, pseudo(n, uint64(n)+17, true)...)
		if len(b) > n && n > len(p) {
			b = b[:n]
		}
		class = "pointer-lookalike-content"
		marks = append(marks, len(p), len(p)-1)
	}
	marks = append(marks, 1023, 1024, 1025, 65516, len(b), 1)
	return b, marks, fmt.Sprintf("%s/%d", class, len(b))
}

// isWholePointer: is the entire input a well-formed pointer, by the harness's
// own reading of the format (sim.RefPointer), not by git-lfs's decoder.
func isWholePointer(data []byte) bool {
	return sim.RefPointer(data) == sim.PtrYes
}

// pointerUnspecified: the format documents do not say whether this input is a
// pointer (upper-case hex and the like); nothing is demanded either way.
func pointerUnspecified(data []byte) bool {
	return sim.RefPointer(data) == sim.PtrUnspec
}

// ---- the clean/smudge oracle -------------------------------------------------

// StreamCase is one evaluated case (for samples).
type StreamCase struct {
	Class       string `json:"class"`
	Len         int    `json:"len"`
	Chunks      []int  `json:"chunk_sizes"`
	EOFWithData bool   `json:"eof_with_data"`
	WorkTree    string `json:"working_tree_file"`
	IsPointer   bool   `json:"input_is_pointer"`
	Outcome     string `json:"outcome"`
}

func runStream(rc *RunCtx, gen func(*sim.Tape) ([]byte, []int, string), prop string) {
	fx := getStreamFix()
	t := rc.Tape
	progress := t.Choose(3, "GIT_LFS_PROGRESS") == 1
	fx.resetWith(progress)
	data, marks, class := gen(t)
	if progress {
		class += "+progress-log"
	}
	sizes, eofWD := GenChunks(t, len(data), marks)
	name := "dir/file.bin"
	wt := []string{"absent", "same", "shorter", "longer", "pointer"}[t.Choose(5, "worktree-state")]
	os.MkdirAll(filepath.Join(fx.work, "dir"), 0755)
	full := filepath.Join(fx.work, name)
	switch wt {
	case "same":
		os.WriteFile(full, data, 0644)
	case "shorter":
		os.WriteFile(full, data[:len(data)/3], 0644)
	case "longer":
		os.WriteFile(full, append(append([]byte(nil), data...), pseudo(5000, 99, false)...), 0644)
	case "pointer":
		os.WriteFile(full, []byte(canonicalPointer(sim.OidOf([]byte("previous")), 77)), 0644)
	}
	sc := &StreamCase{Class: class, Len: len(data), Chunks: sizes, EOFWithData: eofWD, WorkTree: wt}
	isPtr := isWholePointer(data)
	sc.IsPointer = isPtr
	rc.Res.Nontrivial = true
	defer func() {
		sc.Outcome = rc.Res.Class
		if rc.Opts.WantSample {
			rc.Res.Sample = sc
		}
		t.Note(rc.Res.Class + rc.Res.Detail)
	}()

	var out bytes.Buffer
	var cerr error
	rd := &ChunkReader{Data: data, Sizes: sizes, EOFWithData: eofWD}
	exited, code := callExit(func() {
		_, cerr = commands.VerifClean(&out, rd, name, -1)
	})
	if exited {
		rc.Violation("clean-exited", "clean of %d bytes (%s, chunks %v, working tree %s) ended the process with status %d", len(data), class, sizes, wt, code)
		return
	}
	if cerr != nil {
		rc.Violation("clean-failed", "clean of %d bytes (%s, chunks %v) failed: %v", len(data), class, sizes, cerr)
		return
	}
	store := fx.storeContents()
	if pointerUnspecified(data) {
		// either reading is fine, but it must be one of the two
		rc.Probe("pointer-unspecified-input")
		isPtr = bytes.Equal(out.Bytes(), data)
	}
	if isPtr || len(data) == 0 {
		rc.Probe("pointer-or-empty-input")
		if !bytes.Equal(out.Bytes(), data) {
			rc.Violation("pointer-not-passed-through", "input is a well-formed pointer of %d bytes (%s, chunks %v) but clean wrote %d different bytes: %q", len(data), class, sizes, out.Len(), clipS(out.String(), 120))
			return
		}
		if len(store) != 0 {
			rc.Violation("pointer-stored-as-object", "cleaning a pointer (%s) added %d object(s) to local storage", class, len(store))
			return
		}
		return
	}
	rc.Probe("content-input")
	oid := sim.OidOf(data)
	want := canonicalPointer(oid, int64(len(data)))
	if out.String() != want {
		got := out.String()
		p, perr := lfs.DecodePointer(bytes.NewReader(out.Bytes()))
		detail := fmt.Sprintf("output %q", clipS(got, 140))
		if perr == nil && p != nil {
			detail = fmt.Sprintf("output is a pointer to %s size %d", short(p.Oid), p.Size)
			if b, ok := store[p.Oid]; ok {
				detail += fmt.Sprintf(" (stored object has %d bytes)", len(b))
			}
		}
		cls := "wrong-pointer"
		if isWholePointer(out.Bytes()) && bytes.HasPrefix(data, out.Bytes()) {
			cls = "content-truncated-to-pointer-prefix"
		}
		rc.Violation(cls, "input is %d bytes of content (%s, sha256 %s, chunks %v, eof-with-data %v, working tree %s) but %s", len(data), class, short(oid), sizes, eofWD, wt, detail)
		return
	}
	b, ok := store[oid]
	if !ok || !bytes.Equal(b, data) {
		rc.Violation("stored-object-wrong", "pointer names %s/%d but local storage has exists=%v with %d bytes", short(oid), len(data), ok, len(b))
		return
	}
	for k, v := range store {
		if sim.OidOf(v) != k {
			rc.Violation("stored-object-wrong", "local storage holds %s whose content hashes to %s", short(k), short(sim.OidOf(v)))
			return
		}
	}
	// smudge the pointer back, itself delivered in chunks
	psizes, peof := GenChunks(t, out.Len(), []int{out.Len(), out.Len() - 1, out.Len() / 2, 1})
	var back bytes.Buffer
	var serr error
	prd := &ChunkReader{Data: out.Bytes(), Sizes: psizes, EOFWithData: peof}
	exited, code = callExit(func() {
		_, serr = commands.VerifSmudge(&back, prd, name, false)
	})
	if exited {
		rc.Violation("smudge-exited", "smudge of the pointer for %s ended the process with status %d", short(oid), code)
		return
	}
	if !bytes.Equal(back.Bytes(), data) {
		cls := "smudge-wrong-bytes"
		if bytes.Equal(back.Bytes(), out.Bytes()) {
			cls = "smudge-left-pointer"
		}
		rc.Violation(cls, "smudging the pointer of %s (delivered in chunks %v, eof-with-data %v) returned %d bytes (err=%v) instead of the original %d bytes", short(oid), psizes, peof, back.Len(), serr, len(data))
		return
	}
	rc.Probe("round-trip-ok")
}

func init() {
	Register("C08", func(rc *RunCtx) { runStream(rc, GenPointerish, "C08") })
	Register("C01", func(rc *RunCtx) { runStream(rc, GenContent, "C01") })
	noBubble["C08"] = true
	noBubble["C01"] = true
	// smudge of non-pointer bytes passes them through unchanged (C08)
	Register("C08.smudge", func(rc *RunCtx) {
		fx := getStreamFix()
		fx.reset()
		t := rc.Tape
		data, marks, class := GenPointerish(t)
		rc.Res.Nontrivial = true
		if isWholePointer(data) || len(data) == 0 {
			// make it a non-pointer
			data = append([]byte("not a pointer: "), data...)
		}
		// "does not parse as a pointer" is judged by the harness's own
		// reading of the format (which includes: shorter than 1024 bytes).
		if pointerUnspecified(data) {
			rc.Probe("smudge-input-ambiguous")
			return
		}
		if len(data) >= 1024 && sim.RefPointer(bytes.TrimSpace(data[:1024])) != sim.PtrNo {
			// 1024 bytes or longer: content in full, however it begins
			rc.Probe("smudge-padded-pointer-beyond-cutoff")
		}
		rc.Probe("smudge-non-pointer")
		sizes, eofWD := GenChunks(t, len(data), marks)
		var back bytes.Buffer
		rd := &ChunkReader{Data: data, Sizes: sizes, EOFWithData: eofWD}
		exited, code := callExit(func() { commands.VerifSmudge(&back, rd, "dir/f.bin", false) })
		if exited {
			rc.Violation("smudge-exited", "smudge of %d non-pointer bytes (%s) ended the process with status %d", len(data), class, code)
			return
		}
		if !bytes.Equal(back.Bytes(), data) {
			rc.Violation("smudge-changed-non-pointer", "smudging %d bytes that are not a pointer (%s, chunks %v) returned %d different bytes", len(data), class, sizes, back.Len())
		}
		if rc.Opts.WantSample {
			rc.Res.Sample = &StreamCase{Class: "smudge:" + class, Len: len(data), Chunks: sizes, EOFWithData: eofWD, Outcome: rc.Res.Class}
		}
	})
	noBubble["C08.smudge"] = true
}

const textAlphabet = "abcdefghij klmnop\nqrstuvwxyz.,;\r\n0123456789"
