package enga

import "testing"

func TestWorker(t *testing.T) { WorkerMain(t) }
