package enga

import (
	"bytes"
	"os"
	"strings"

	"verif/sim"
)

func init() {
	Register("C02", func(rc *RunCtx) {
		cfg := GenQCfg(rc.Tape, QProfile{ForceReal: true, ForceDown: true, BodyFaults: true, PartStates: true, MaxObjs: 4, MaxAdds: 6})
		qr := RunQueue(rc, cfg)
		CheckC02(rc, qr)
		finishQ(rc, qr)
	})
	Register("C02.nofault", func(rc *RunCtx) {
		cfg := GenQCfg(rc.Tape, QProfile{ForceReal: true, ForceDown: true, NoFaults: true, PartStates: true, MaxObjs: 4, MaxAdds: 6})
		qr := RunQueue(rc, cfg)
		CheckC02(rc, qr)
		checkAllDownloaded(rc, qr)
		finishQ(rc, qr)
	})
}

// CheckC02: success => hash-valid final file; failure => final path untouched.
func CheckC02(rc *RunCtx, qr *QRun) {
	if rc.Res.Harness != "" {
		return
	}
	if rc.Res.Class != "" {
		// a hang is C06's business; the file-level demand is still checked
		// on whatever was reported so far, but nothing new is claimed.
		return
	}
	delivered := map[string]bool{}
	for _, d := range qr.Deliveries {
		delivered[d.Oid] = true
	}
	added := map[string][]string{}
	for _, op := range qr.Cfg.Adds {
		if !op.CallerErr {
			o := qr.Objs[op.Obj]
			added[o.Oid] = append(added[o.Oid], op.Name)
		}
	}
	for _, o := range qr.Objs {
		if len(added[o.Oid]) == 0 {
			continue
		}
		p := qr.Paths[o.Oid]
		cur, err := os.ReadFile(p)
		exists := err == nil
		pre, hadPre := qr.Pre[o.Oid]
		if delivered[o.Oid] {
			rc.Probe("download-reported-ok")
			if !exists {
				rc.Violation("success-without-file", "download of %s was reported successful but %s does not exist", short(o.Oid), p)
				return
			}
			if sim.OidOf(cur) != o.Oid {
				rc.Violation("success-with-bad-content", "download of %s was reported successful but the stored file (%d bytes) hashes to %s", short(o.Oid), len(cur), short(sim.OidOf(cur)))
				return
			}
			continue
		}
		// not reported successful: the final location must be as before
		rc.Probe("download-reported-failed")
		if hadPre {
			if !exists || !bytes.Equal(cur, pre) {
				rc.Violation("failure-replaced-file", "download of %s failed but the file at its final location changed (before %d bytes, now exists=%v %d bytes)", short(o.Oid), len(pre), exists, len(cur))
				return
			}
		} else if exists {
			rc.Violation("failure-created-file", "download of %s was not reported successful (errors: %v) but a file of %d bytes (hash %s) now exists at its final location", short(o.Oid), clip(errsNaming(qr, o.Oid, added[o.Oid])), len(cur), short(sim.OidOf(cur)))
			return
		}
	}
	for k := range qr.Cfg.PartState {
		_ = k
		rc.Probe("part-file-present")
	}
	for _, r := range qr.W.Net.Log {
		if r.Kind == "download" && r.Header.Get("Range") != "" {
			rc.Probe("resume-attempted")
			if r.Status == 206 {
				rc.Probe("resume-206")
			}
			if r.Status == 416 {
				rc.Probe("resume-416")
			}
		}
	}
}

func errsNaming(qr *QRun, oid string, names []string) []string {
	var out []string
	for _, e := range qr.Errors {
		if strings.Contains(e, oid) {
			out = append(out, e)
			continue
		}
		for _, n := range names {
			if strings.Contains(e, n) {
				out = append(out, e)
				break
			}
		}
	}
	return out
}

// checkAllDownloaded: in the fault-free configuration every object the server
// has must arrive.
func checkAllDownloaded(rc *RunCtx, qr *QRun) {
	if rc.Res.Class != "" || rc.Res.Harness != "" {
		return
	}
	delivered := map[string]bool{}
	for _, d := range qr.Deliveries {
		delivered[d.Oid] = true
	}
	for i, o := range qr.Objs {
		added := false
		for _, op := range qr.Cfg.Adds {
			if op.Obj == i && !op.CallerErr {
				added = true
			}
		}
		// a stale garbage .part legitimately makes this attempt fail (hash
		// mismatch is not retriable); only valid prefixes must succeed.
		if st := qr.Cfg.PartState[i]; st == 2 || st == 7 {
			continue
		}
		if added && qr.Cfg.ServerHas[i] && !delivered[o.Oid] {
			rc.Violation("fault-free-download-failed", "no fault was injected, the server has %s, yet it was not delivered; errors %v", short(o.Oid), clip(qr.Errors))
			return
		}
	}
}
