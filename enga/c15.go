package enga

import (
	"fmt"
	"strings"
	"time"

	"github.com/git-lfs/git-lfs/v3/tq"

	"verif/sim"
)

func init() {
	Register("C15", func(rc *RunCtx) {
		cfg := GenQCfg(rc.Tape, QProfile{TimeFaults: true})
		qr := RunQueue(rc, cfg)
		CheckC15(rc, qr)
		finishQ(rc, qr)
	})
	// the same with malformed batch answers (entries omitted or repeated):
	// whatever the server sends, one object is never in two transfers at once
	Register("C15.shapes", func(rc *RunCtx) {
		cfg := GenQCfg(rc.Tape, QProfile{TimeFaults: true, ShapeFaults: true, ShapeExclude: map[string]bool{"obj.unknown": true}})
		cfg.Faults.ObjForeign = 0
		qr := RunQueue(rc, cfg)
		CheckC15(rc, qr)
		finishQ(rc, qr)
	})
	Register("C15.single", func(rc *RunCtx) {
		// one object, no latency, no deferrals: black-box spacing bound
		cfg := GenQCfg(rc.Tape, QProfile{TimeFaults: true, MaxObjs: 1, MaxAdds: 1})
		cfg.LatencyMaxMs = 0
		cfg.Script.LatencyMaxMs = 0
		cfg.Watchers = 0
		cfg.Faults.Batch429, cfg.Faults.Get429, cfg.Faults.Put429, cfg.Script.Later = 0, 0, 0, 0
		cfg.Faults.GetBurst = 0
		qr := RunQueue(rc, cfg)
		CheckC15(rc, qr)
		checkC15BlackBox(rc, qr)
		finishQ(rc, qr)
	})
}

type c15ev struct {
	step  int
	at    time.Duration
	kind  string // batch, attempt
	start bool
}

// documentedMaxDelay is what the documentation promises for a configured
// lfs.transfer.maxretrydelay (not what the code computes).
func documentedMaxDelay(cfg *QCfg) time.Duration {
	if cfg.MaxRetryDelay < 0 {
		return 10 * time.Second
	}
	return time.Duration(cfg.MaxRetryDelay) * time.Second
}

func documentedMaxRetries(cfg *QCfg) int {
	if cfg.MaxRetries < 1 {
		return 8
	}
	return cfg.MaxRetries
}

// CheckC15 is the retry oracle of DESIGN 3.15 over the recorded history.
func CheckC15(rc *RunCtx, qr *QRun) {
	if rc.Res.Class != "" || rc.Res.Harness != "" {
		return
	}
	cfg := &qr.Cfg
	maxTries := 1 + documentedMaxRetries(cfg)
	maxDelay := documentedMaxDelay(cfg)
	start := qr.W.Start

	batchCalls := map[string][]sim.Event{} // oid -> batch.call events naming it
	attempts := map[string][]sim.Event{}   // oid -> attempt.start events
	open := map[string]string{}            // oid -> worker with an open attempt
	for _, e := range qr.Events {
		switch e.Kind {
		case "batch.call":
			if len(e.Args) > 0 {
				if ts, ok := e.Args[0].([]*tq.Transfer); ok {
					for _, t := range ts {
						batchCalls[t.Oid] = append(batchCalls[t.Oid], e)
					}
				}
			}
		case "attempt.start":
			attempts[e.Oid] = append(attempts[e.Oid], e)
			if w, busy := open[e.Oid]; busy {
				rc.Violation("overlap", "two transfers of %s in progress at once: %s started at step %d while %s is still transferring it", short(e.Oid), e.G, e.Step, w)
				return
			}
			open[e.Oid] = e.G
		case "attempt.end":
			delete(open, e.Oid)
		case "retry":
			// clause 4: back-off chosen by the queue
			if len(e.Args) >= 3 {
				ready, _ := e.Args[1].(time.Time)
				later, _ := e.Args[2].(bool)
				now := start.Add(e.At)
				if !later && !ready.IsZero() {
					d := ready.Sub(now)
					rc.Probe("backoff-chosen")
					if d > maxDelay {
						rc.Violation("backoff-exceeds-max", "retry #%v of %s waits %v, configured lfs.transfer.maxretrydelay=%d allows at most %v", e.Args[0], short(e.Oid), d, cfg.MaxRetryDelay, maxDelay)
						return
					}
				}
			}
		}
	}
	// clause 1
	for oid, a := range attempts {
		if len(a) > maxTries {
			rc.Violation("too-many-attempts", "%s was attempted %d times, lfs.transfer.maxretries=%d allows %d", short(oid), len(a), cfg.MaxRetries, maxTries)
			return
		}
		if len(a) == maxTries {
			rc.Probe("retry-budget-exhausted")
		}
	}
	for oid, b := range batchCalls {
		if len(b) > maxTries {
			rc.Violation("too-many-batch-calls", "%s was named in %d batch calls, lfs.transfer.maxretries=%d allows %d", short(oid), len(b), cfg.MaxRetries, maxTries)
			return
		}
	}
	later := func(oid string, step int) (string, bool) {
		for _, e := range batchCalls[oid] {
			if e.Step > step {
				return fmt.Sprintf("batch call at step %d", e.Step), true
			}
		}
		for _, e := range attempts[oid] {
			if e.Step > step {
				return fmt.Sprintf("transfer attempt at step %d", e.Step), true
			}
		}
		return "", false
	}
	// clause 2: non-retriable outcomes are final
	for _, a := range qr.Scripted {
		if a.Outcome == "fatal" || a.Outcome == "422" {
			if what, ok := later(a.Oid, a.EndStep); ok {
				rc.Violation("retry-after-fatal", "%s failed with a non-retriable error (%s) at step %d but was tried again: %s", short(a.Oid), a.Outcome, a.EndStep, what)
				return
			}
			rc.Probe("non-retriable-final")
		}
	}
	for _, b := range qr.W.Srv.Batches {
		if b.Status != 200 || strings.Contains(b.Note, "badjson") || strings.Contains(b.Note, "hashalgo") || !qr.W.Net.Log[b.ReqSeq].Delivered {
			continue
		}
		step := qr.W.Net.Log[b.ReqSeq].Step
		for oid, sh := range b.Shapes {
			if sh == "error" {
				if what, ok := later(oid, step); ok {
					rc.Violation("retry-after-fatal", "the server answered %s with a per-object error at step %d but it was tried again: %s", short(oid), step, what)
					return
				}
				rc.Probe("non-retriable-final")
			}
		}
	}
	for _, r := range qr.W.Net.Log {
		if r.Kind == "upload" && r.Status == 422 && r.Delivered {
			if what, ok := later(r.Oid, r.Step); ok {
				rc.Violation("retry-after-fatal", "upload of %s was rejected with 422 at step %d but was tried again: %s", short(r.Oid), r.Step, what)
				return
			}
		}
	}
	// clause 3: Retry-After is honoured
	for _, d := range qr.W.Srv.Deferrals {
		if d.Until == 0 || (d.ReqSeq >= 0 && !qr.W.Net.Log[d.ReqSeq].Delivered) {
			continue
		}
		for _, oid := range d.Oids {
			for _, evs := range [][]sim.Event{batchCalls[oid], attempts[oid]} {
				for _, e := range evs {
					if e.Step > d.Step && e.At < d.Until {
						rc.Violation("retry-before-retry-after", "%s was deferred at t=%v with Retry-After %q (until t=%v) but %s again at t=%v", short(oid), d.At, d.Header, d.Until, e.Kind, e.At)
						return
					}
					if e.Step > d.Step {
						rc.Probe("retry-after-wait-taken")
					}
				}
			}
		}
	}
	// clause 6: expired actions are never used, and are re-requested
	for _, o := range qr.W.Srv.Offers {
		if o.ExpiresAt == 0 {
			continue
		}
		for _, seq := range o.UsedAt {
			r := qr.W.Net.Log[seq]
			if r.Issued >= o.ExpiresAt {
				rc.Violation("expired-action-used", "%s %s for %s was issued at t=%v with an action that expired at t=%v (offered at t=%v)", r.Method, r.Kind, short(o.Oid), r.Issued, o.ExpiresAt, o.IssuedAt)
				return
			}
		}
		if o.Used == 0 {
			rc.Probe("expired-action-unused")
		}
	}
}

// checkC15BlackBox: with a single object, zero latency and no deferrals the
// observed gap between the end of a failed try and the next batch call is
// bounded by the configured maximum delay.
func checkC15BlackBox(rc *RunCtx, qr *QRun) {
	if rc.Res.Class != "" || rc.Res.Harness != "" {
		return
	}
	maxDelay := documentedMaxDelay(&qr.Cfg)
	var lastEnd time.Duration = -1
	for _, e := range qr.Events {
		switch e.Kind {
		case "attempt.end", "batch.ret":
			lastEnd = e.At
		case "batch.call":
			if lastEnd >= 0 {
				gap := e.At - lastEnd
				rc.Probe("observed-gap")
				// 1ns sim-time nudges per loop iteration are harness artefacts
				if gap > maxDelay+time.Millisecond {
					rc.Violation("gap-exceeds-max", "observed %v between the end of a failed try and the next batch call; lfs.transfer.maxretrydelay=%d allows %v", gap, qr.Cfg.MaxRetryDelay, maxDelay)
					return
				}
			}
		}
	}
}
