package enga

import (
	"bufio"
	"encoding/json"
	"fmt"
	"os"
	"path/filepath"
	"testing"

	"github.com/git-lfs/git-lfs/v3/subprocess"

	"verif/sim"
)

// Spec is the job description a worker process receives in VERIF_SPEC.
type Spec struct {
	Mode     string          `json:"mode"` // batch | replay | serve
	Workload string          `json:"workload"`
	Base     uint64          `json:"base"`
	From     int             `json:"from"`
	Count    int             `json:"count"`
	Stride   int             `json:"stride"`
	Out      string          `json:"out"`
	Side     string          `json:"side"`
	Samples  int             `json:"samples"`
	Seed     uint64          `json:"seed"`
	Tape     []uint32        `json:"tape"`
	Suppress map[string]bool `json:"suppress"`
	Budget   float64         `json:"budget_s"`
	Log      bool            `json:"log"`
}

// Summary is what a batch worker writes at the end.
type Summary struct {
	Runs       int               `json:"runs"`
	LastIdx    int               `json:"last_idx"`
	Hashes     []uint64          `json:"hashes"` // trace hashes of non-trivial runs
	SchedHash  []uint64          `json:"sched_hashes"`
	Steps      int64             `json:"steps"`
	SimMs      int64             `json:"sim_ms"`
	MaxSimMs   int64             `json:"max_sim_ms"`
	Fired      map[string]int    `json:"fired"`
	Probes     map[string]int    `json:"probes"`
	Violations []Result          `json:"violations"`
	Harness    []Result          `json:"harness"`
	Samples    []interface{}     `json:"samples"`
	Digest     map[string]uint64 `json:"digest,omitempty"` // idx -> trace hash, when Log
}

// WorkerMain is the entry point of the engine-A test binary.
func WorkerMain(t *testing.T) {
	specJSON := os.Getenv("VERIF_SPEC")
	if specJSON == "" {
		t.Skip("no VERIF_SPEC")
	}
	var sp Spec
	if err := json.Unmarshal([]byte(specJSON), &sp); err != nil {
		t.Fatalf("bad VERIF_SPEC: %v", err)
	}
	root := scratchRoot()
	os.MkdirAll(root, 0755)
	// Every worker lives in its own throw-away git repository so that
	// nothing git-lfs does can touch /verif or /repo.
	home := filepath.Join(root, "home")
	os.MkdirAll(home, 0755)
	os.Setenv("HOME", home)
	os.Setenv("XDG_CONFIG_HOME", home)
	os.Setenv("GIT_CONFIG_NOSYSTEM", "1")
	os.Setenv("GIT_CONFIG_GLOBAL", filepath.Join(home, ".gitconfig"))
	os.Setenv("GIT_TERMINAL_PROMPT", "0")
	// command credential helper used by C10 (active only while
	// VERIF_CMDHELPER=1 is exported by the run)
	helperPath := filepath.Join(root, "credhelper.sh")
	os.WriteFile(helperPath, []byte("#!/bin/sh\n[ -e \"$HOME/cmdhelper-on\" ] || exit 0\n[ \"$1\" = get ] || exit 0\nwhile read l; do case $l in protocol=*) p=${l#protocol=};; host=*) h=${l#host=};; esac; done\necho username=cmduser\necho password=cmd-$p-$h | tr ':' '_'\n"), 0755)
	os.WriteFile(filepath.Join(home, ".gitconfig"), []byte("[credential]\n\thelper = "+helperPath+"\n"), 0644)
	// git-lfs caches the environment it hands to subprocesses
	subprocess.ResetEnvironment()
	cwd := filepath.Join(root, "cwd")
	os.MkdirAll(filepath.Join(cwd, ".git"), 0755)
	os.Chdir(cwd)
	runDir := filepath.Join(root, "run")

	switch sp.Mode {
	case "replay":
		tape := sim.NewReplayTape(sp.Seed, sp.Tape)
		if sp.Tape == nil {
			tape = sim.NewTape(sp.Seed)
		}
		if sp.Side != "" {
			if f, err := os.Create(sp.Side); err == nil {
				tape.Sink = f
				defer f.Close()
			}
		}
		res := RunOne(t, sp.Workload, tape, Opts{KeepLabels: true, WantSample: true, Suppress: sp.Suppress, Dir: runDir})
		res.Extra = map[string]string{"overrun": fmt.Sprint(tape.Overrun)}
		writeJSON(sp.Out, res)
	case "serve":
		// candidate tapes on stdin (one JSON array per line) -> result per line
		in := bufio.NewReaderSize(os.Stdin, 1<<20)
		out := bufio.NewWriter(os.Stdout)
		for {
			line, err := in.ReadBytes('\n')
			if len(line) > 1 {
				var tp []uint32
				if json.Unmarshal(line, &tp) != nil {
					break
				}
				if sp.Side != "" {
					os.WriteFile(sp.Side, line, 0644)
				}
				res := RunOne(t, sp.Workload, sim.NewReplayTape(sp.Seed, tp), Opts{Suppress: sp.Suppress, Dir: runDir})
				b, _ := json.Marshal(res)
				out.Write(append([]byte("RESULT "), b...))
				out.WriteByte('\n')
				out.Flush()
			}
			if err != nil {
				break
			}
		}
	default:
		sum := &Summary{Fired: map[string]int{}, Probes: map[string]int{}}
		if sp.Log {
			sum.Digest = map[string]uint64{}
		}
		stride := sp.Stride
		if stride <= 0 {
			stride = 1
		}
		for k := 0; k < sp.Count; k++ {
			idx := sp.From + k*stride
			seed := sim.Mix(sp.Base, uint64(idx))
			if sp.Side != "" {
				os.WriteFile(sp.Side, []byte(fmt.Sprintf(`{"idx":%d,"seed":%d,"k":%d}`, idx, seed, k)), 0644)
			}
			want := len(sum.Samples) < sp.Samples
			res := RunOne(t, sp.Workload, sim.NewTape(seed), Opts{WantSample: want, KeepLabels: false, Dir: runDir})
			res.Idx = idx
			sum.Runs++
			sum.LastIdx = idx
			sum.Steps += int64(res.Steps)
			sum.SimMs += res.SimTimeMs
			if res.SimTimeMs > sum.MaxSimMs {
				sum.MaxSimMs = res.SimTimeMs
			}
			for f, n := range res.Fired {
				sum.Fired[f] += n
			}
			for f, n := range res.Probes {
				sum.Probes[f] += n
			}
			if res.Nontrivial {
				sum.Hashes = append(sum.Hashes, res.TraceHash)
				sum.SchedHash = append(sum.SchedHash, res.SchedHash)
			}
			if sp.Log {
				sum.Digest[fmt.Sprint(idx)] = res.TraceHash ^ hashStr(res.Class)
			}
			if want && res.Sample != nil && res.Nontrivial {
				sum.Samples = append(sum.Samples, res.Sample)
			}
			res.Sample = nil
			if res.Harness != "" {
				sum.Harness = append(sum.Harness, res)
			} else if res.Class != "" {
				res.Labels = nil
				sum.Violations = append(sum.Violations, res)
			}
			if (k+1)%200 == 0 {
				writeJSON(sp.Out, sum)
			}
		}
		writeJSON(sp.Out, sum)
	}
	os.RemoveAll(runDir)
}

func hashStr(s string) uint64 {
	var h uint64 = 1469598103934665603
	for i := 0; i < len(s); i++ {
		h ^= uint64(s[i])
		h *= 1099511628211
	}
	return h
}

func writeJSON(path string, v interface{}) {
	b, _ := json.Marshal(v)
	tmp := path + ".tmp"
	os.WriteFile(tmp, b, 0644)
	os.Rename(tmp, path)
}
