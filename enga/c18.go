package enga

import (
	"encoding/json"
	"fmt"
	"os"
	"path/filepath"
	"strings"
	"sync"

	"github.com/xeipuuv/gojsonschema"

	"verif/sim"
)

func init() {
	Register("C18", func(rc *RunCtx) {
		cfg := GenQCfg(rc.Tape, QProfile{ForceReal: true, ShapeFaults: true, Corrupt: true, RefNames: true, Redirects: true})
		cfg.OfferHeaders = true
		cfg.ActionAuth = rc.Tape.Bool(1, 3, "actions-carry-authorization")
		qr := RunQueue(rc, cfg)
		CheckC18(rc, qr)
		finishQ(rc, qr)
	})
	Register("C18.nofault", func(rc *RunCtx) {
		cfg := GenQCfg(rc.Tape, QProfile{ForceReal: true, NoFaults: true, RefNames: true})
		cfg.OfferHeaders = true
		qr := RunQueue(rc, cfg)
		CheckC18(rc, qr)
		finishQ(rc, qr)
	})
}

var schemaOnce sync.Once
var schemas = map[string]*gojsonschema.Schema{}
var schemaErr error

// SchemaDir is where the published API schemas are read from at run time.
var SchemaDir = "/repo/docs/api/schemas"

func loadSchemas() {
	schemaOnce.Do(func() {
		if d := os.Getenv("VERIF_SCHEMA_DIR"); d != "" {
			SchemaDir = d
		}
		for _, n := range []string{"http-batch-request-schema.json", "http-lock-create-request-schema.json", "http-lock-delete-request-schema.json"} {
			sc, err := gojsonschema.NewSchema(gojsonschema.NewReferenceLoader("file://" + filepath.Join(SchemaDir, n)))
			if err != nil {
				schemaErr = fmt.Errorf("%s: %v", n, err)
				return
			}
			schemas[n] = sc
		}
	})
}

func validate(schema string, body []byte) string {
	loadSchemas()
	if schemaErr != nil {
		panic(sim.HarnessError{Msg: "cannot load API schema: " + schemaErr.Error()})
	}
	res, err := schemas[schema].Validate(gojsonschema.NewBytesLoader(body))
	if err != nil {
		return "not valid JSON: " + err.Error()
	}
	if !res.Valid() {
		var m []string
		for _, e := range res.Errors() {
			m = append(m, e.String())
		}
		return strings.Join(m, "; ")
	}
	return ""
}

const lfsMedia = "application/vnd.git-lfs+json"

func mediaOK(v string) bool {
	v = strings.ToLower(strings.ReplaceAll(v, " ", ""))
	return v == lfsMedia || v == lfsMedia+";charset=utf-8"
}

// CheckRequests is the conformance monitor over every request delivered to
// the simulated server: usable from any engine-A workload.
func CheckRequests(rc *RunCtx, w *World, asked map[string]int64, direction string, refName string) {
	for _, r := range w.Net.Log {
		switch r.Kind {
		case "batch":
			rc.Probe("batch-request-checked")
			if r.Method != "POST" {
				rc.Violation("api-nonconformant", "batch request uses method %s", r.Method)
				return
			}
			if msg := validate("http-batch-request-schema.json", r.Body); msg != "" {
				rc.Violation("api-nonconformant", "batch request body violates the published schema: %s; body=%s", msg, clipS(string(r.Body), 300))
				return
			}
			if !mediaOK(r.Header.Get("Accept")) || !mediaOK(r.Header.Get("Content-Type")) {
				rc.Violation("api-nonconformant", "batch request headers Accept=%q Content-Type=%q, want %s", r.Header.Get("Accept"), r.Header.Get("Content-Type"), lfsMedia)
				return
			}
			var br sim.BatchReq
			json.Unmarshal(r.Body, &br)
			if br.Operation != direction {
				rc.Violation("api-nonconformant", "batch operation %q on a %s queue", br.Operation, direction)
				return
			}
			if br.HashAlgo != "" && br.HashAlgo != "sha256" {
				rc.Violation("api-nonconformant", "batch request hash_algo=%q", br.HashAlgo)
				return
			}
			seen := map[string]bool{}
			for _, o := range br.Objects {
				sz, ok := asked[o.Oid]
				if !ok {
					rc.Violation("api-names-unasked-object", "batch request names %s which the caller never added", short(o.Oid))
					return
				}
				if o.Size != sz || o.Size < 0 {
					rc.Violation("api-wrong-size", "batch request gives size %d for %s, caller gave %d", o.Size, short(o.Oid), sz)
					return
				}
				if seen[o.Oid] {
					rc.Violation("api-nonconformant", "batch request lists %s twice", short(o.Oid))
					return
				}
				seen[o.Oid] = true
			}
			if refName != "" {
				if br.Ref == nil || br.Ref.Name != refName {
					got := "<none>"
					if br.Ref != nil {
						got = br.Ref.Name
					}
					rc.Violation("api-nonconformant", "batch request ref.name=%q, queue was created for %q", got, refName)
					return
				}
				rc.Probe("ref-name-checked")
			}
		case "verify":
			rc.Probe("verify-request-checked")
			if r.Method != "POST" {
				rc.Violation("api-nonconformant", "verify request uses method %s", r.Method)
				return
			}
			if !mediaOK(r.Header.Get("Accept")) || !mediaOK(r.Header.Get("Content-Type")) {
				rc.Violation("api-nonconformant", "verify request headers Accept=%q Content-Type=%q", r.Header.Get("Accept"), r.Header.Get("Content-Type"))
				return
			}
			var v map[string]interface{}
			if json.Unmarshal(r.Body, &v) != nil {
				rc.Violation("api-nonconformant", "verify body is not JSON")
				return
			}
			oid, _ := v["oid"].(string)
			size, okS := v["size"].(float64)
			if _, ok := asked[oid]; !ok || !okS || int64(size) != asked[oid] {
				rc.Violation("api-nonconformant", "verify body %s does not name an added object with its size", clipS(string(r.Body), 200))
				return
			}
		case "download":
			rc.Probe("storage-request-checked")
			if r.Method != "GET" {
				rc.Violation("api-nonconformant", "download action used with method %s", r.Method)
				return
			}
		case "upload":
			rc.Probe("storage-request-checked")
			if r.Method != "PUT" {
				rc.Violation("api-nonconformant", "upload action used with method %s", r.Method)
				return
			}
		}
	}
	// action use is judged by the server itself (method, href, headers, no action => no request)
	for _, p := range w.Srv.Problems {
		rc.Violation("api-action-misuse", "%s", p)
		return
	}
	// an unsupported hash algorithm must be rejected, not acted upon
	for i, b := range w.Srv.Batches {
		if strings.Contains(b.Note, "+hashalgo") && w.Net.Log[b.ReqSeq].Delivered {
			rc.Probe("hash-algo-response")
			for _, o := range w.Srv.Offers {
				if o.BatchSeq == i && o.Used > 0 {
					rc.Violation("hash-algo-acted-upon", "batch response #%d named hash_algo sha512 but its %s action for %s was used", i, o.Rel, short(o.Oid))
					return
				}
			}
		}
	}
}

func clipS(s string, n int) string {
	if len(s) > n {
		return s[:n] + "…"
	}
	return s
}

// CheckC18 applies the monitor to a queue run.
func CheckC18(rc *RunCtx, qr *QRun) {
	if rc.Res.Harness != "" {
		return
	}
	if rc.Res.Class != "" {
		return
	}
	asked := map[string]int64{}
	for _, op := range qr.Cfg.Adds {
		if !op.CallerErr {
			o := qr.Objs[op.Obj]
			asked[o.Oid] = int64(len(o.Data))
		}
	}
	dir := "download"
	if qr.Cfg.Upload {
		dir = "upload"
	}
	CheckRequests(rc, qr.W, asked, dir, qr.Cfg.RefName)
	if rc.Res.Class != "" {
		return
	}
	// hash_algo rejection must be visible to the caller
	for _, b := range qr.W.Srv.Batches {
		if strings.Contains(b.Note, "+hashalgo") && qr.W.Net.Log[b.ReqSeq].Delivered && !strings.Contains(b.Note, "corrupt") {
			found := false
			for _, e := range qr.Errors {
				if strings.Contains(strings.ToLower(e), "hash algorithm") {
					found = true
				}
			}
			if !found {
				rc.Violation("hash-algo-not-reported", "a batch response named an unsupported hash algorithm but no error mentions it; errors=%v", clip(qr.Errors))
				return
			}
		}
	}
}
