package enga

import (
	"fmt"
	"regexp"
	"sort"
	"strings"
)

func init() {
	Register("C06", func(rc *RunCtx) {
		cfg := GenQCfg(rc.Tape, QProfile{ShapeFaults: true, Corrupt: true})
		qr := RunQueue(rc, cfg)
		CheckC06(rc, qr)
		finishQ(rc, qr)
	})
	Register("C06.nofault", func(rc *RunCtx) {
		cfg := GenQCfg(rc.Tape, QProfile{NoFaults: true})
		qr := RunQueue(rc, cfg)
		CheckC06(rc, qr)
		finishQ(rc, qr)
	})
}

var tmpNameRE = regexp.MustCompile(`"[^"]*/([0-9a-f]{64})\d+"`)

func finishQ(rc *RunCtx, qr *QRun) {
	// fold the observable outcome into the trace hash (determinism self-test)
	for _, d := range qr.Deliveries {
		rc.Tape.Note(fmt.Sprintf("d%d %s %s %d", d.Watcher, d.Oid, d.Name, d.Step))
	}
	for _, e := range qr.Errors {
		// temp-file names carry a random suffix and the scratch path differs per worker
		rc.Tape.Note(tmpNameRE.ReplaceAllString(e, "$1-TMP"))
	}
	for _, r := range qr.W.Net.Log {
		rc.Tape.Note(fmt.Sprintf("%d %v %s %s %s %d %s", r.Step, r.At, r.G, r.Method, r.URL, r.Status, r.Note))
	}
	for _, e := range qr.Events {
		rc.Tape.Note(fmt.Sprintf("%d %s %s %s %v", e.Step, e.G, e.Kind, e.Oid, e.At))
	}
	rc.Res.Nontrivial = len(rc.Res.Fired) > 0 || (rc.Sched != nil && rc.Sched.Interleave > 0)
	if rc.Opts.WantSample {
		rc.Res.Sample = qr.Sample(rc)
	}
}

// CheckC06 is the conservation / liveness oracle of DESIGN 3.6.
func CheckC06(rc *RunCtx, qr *QRun) {
	if rc.Res.Class != "" || rc.Res.Harness != "" {
		return // hang / livelock already classified by the scheduler
	}
	if !qr.WaitDone {
		rc.Violation("hang", "Wait did not return (adds done %d/%d)", qr.AddsDone, len(qr.Cfg.Adds))
		return
	}
	cfg := qr.Cfg
	// refinement cross-check on the wait-group history
	bal := map[string]int{}
	aborted := false
	for _, e := range qr.Events {
		switch e.Kind {
		case "wg+1":
			bal[e.Oid]++
		case "wg-1":
			if !aborted {
				bal[e.Oid]--
				if bal[e.Oid] < 0 {
					rc.Violation("accounting", "pending counter of %s went negative (reason %v): an object was accounted for twice or was never added", short(e.Oid), e.Args)
					return
				}
			}
		case "abort":
			aborted = true
		}
	}
	if aborted {
		rc.Probe("abort-path")
	}
	if !aborted {
		for oid, b := range bal {
			if b != 0 {
				rc.Violation("accounting", "Wait returned with pending counter %d for %s", b, short(oid))
				return
			}
		}
	}
	// expected add counts
	want := map[string]int{}
	names := map[string][]string{}
	var callerErrs []string
	for _, op := range cfg.Adds {
		o := qr.Objs[op.Obj]
		if op.CallerErr {
			callerErrs = append(callerErrs, "caller-side error for "+op.Name)
			continue
		}
		want[o.Oid]++
		names[o.Oid] = append(names[o.Oid], op.Name)
	}
	for _, ce := range callerErrs {
		found := false
		for _, e := range qr.Errors {
			if strings.Contains(e, ce) {
				found = true
			}
		}
		if !found {
			rc.Violation("lost-error", "error passed to Add (%q) is not in Errors()", ce)
			return
		}
	}
	got := make([]map[string]int, cfg.Watchers)
	for i := range got {
		got[i] = map[string]int{}
	}
	for _, d := range qr.Deliveries {
		got[d.Watcher][d.Oid]++
	}
	success := map[string]bool{}
	for _, a := range qr.Attempts {
		if a.Outcome == "ok" {
			success[a.Oid] = true
		}
	}
	noaction := map[string]bool{}
	for _, b := range qr.W.Srv.Batches {
		for oid, sh := range b.Shapes {
			// A deliberately corrupted response may have lost the
			// actions or the error of any entry: what the client saw
			// for the objects of that batch may legitimately be "no
			// transfer needed". Relaxed for those objects only.
			if sh == "noaction" || b.Corrupt != "" {
				noaction[oid] = true
			}
		}
	}
	// every known identifier, to tell object-level from queue-level errors
	var idents []string
	for oid := range want {
		idents = append(idents, oid)
		idents = append(idents, names[oid]...)
	}
	for _, b := range qr.W.Srv.Batches {
		idents = append(idents, b.Unknown...)
	}
	queueLevelErr := false
	for _, e := range qr.Errors {
		named := false
		for _, id := range idents {
			if strings.Contains(e, id) {
				named = true
				break
			}
		}
		isCaller := strings.HasPrefix(e, "caller-side error")
		if !named && !isCaller {
			queueLevelErr = true
		}
	}
	oids := make([]string, 0, len(want))
	for oid := range want {
		oids = append(oids, oid)
	}
	sort.Strings(oids)
	// deliveries of objects never added
	for wi := range got {
		for oid := range got[wi] {
			if want[oid] == 0 {
				rc.Violation("phantom-delivery", "watcher %d received %s which was never added", wi, short(oid))
				return
			}
		}
	}
	for _, oid := range oids {
		k := want[oid]
		allK, allZero := true, true
		for wi := range got {
			if got[wi][oid] != k {
				allK = false
			}
			if got[wi][oid] != 0 {
				allZero = false
			}
		}
		covered := queueLevelErr || (aborted && len(qr.Errors) > 0)
		if !covered {
			for _, e := range qr.Errors {
				if strings.Contains(e, oid) {
					covered = true
				}
				for _, n := range names[oid] {
					if strings.Contains(e, n) {
						covered = true
					}
				}
			}
		}
		delivered := cfg.Watchers > 0 && !allZero
		if delivered {
			if !allK {
				rc.Violation("delivery-count", "%s added %d times but deliveries per watcher are %s", short(oid), k, countsOf(got, oid))
				return
			}
			if !success[oid] && !cfg.DryRun {
				rc.Violation("delivered-untransferred", "%s was delivered to watchers but no transfer attempt of it succeeded", short(oid))
				return
			}
			rc.Probe("delivered")
			continue
		}
		// not delivered to anyone (or nobody is watching)
		if cfg.Watchers == 0 && (success[oid] || cfg.DryRun) {
			continue
		}
		if success[oid] && cfg.Watchers > 0 && !covered {
			rc.Violation("silent-drop", "%s was transferred successfully but never delivered to the %d watcher(s), and no error covers it", short(oid), cfg.Watchers)
			return
		}
		if noaction[oid] {
			rc.Probe("no-action")
			continue
		}
		if covered {
			rc.Probe("covered-by-error")
			continue
		}
		rc.Violation("silent-drop", "%s (added %d times as %v) was neither delivered, nor declared as needing no transfer, nor covered by any of the %d reported errors %v", short(oid), k, names[oid], len(qr.Errors), clip(qr.Errors))
		return
	}
}

func short(oid string) string {
	if len(oid) > 10 {
		return oid[:10]
	}
	return oid
}

func countsOf(got []map[string]int, oid string) string {
	var s []string
	for wi := range got {
		s = append(s, fmt.Sprintf("w%d=%d", wi, got[wi][oid]))
	}
	return strings.Join(s, ",")
}

func clip(e []string) []string {
	out := []string{}
	for i, x := range e {
		if i >= 4 {
			break
		}
		if len(x) > 160 {
			x = x[:160] + "…"
		}
		out = append(out, x)
	}
	return out
}
