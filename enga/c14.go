package enga

import (
	"bytes"
	"fmt"
	"io"
	"os"
	"path/filepath"
	"sort"
	"strconv"
	"strings"

	"github.com/git-lfs/git-lfs/v3/commands"
	"github.com/git-lfs/git-lfs/v3/config"
	"github.com/git-lfs/git-lfs/v3/verifhook"

	"verif/sim"
)

// ---- pkt-line helpers --------------------------------------------------------

func pkt(b []byte) []byte {
	return append([]byte(fmt.Sprintf("%04x", len(b)+4)), b...)
}

func pktText(s string) []byte { return pkt([]byte(s + "\n")) }

var flushPkt = []byte("0000")

// readPkt parses one packet at pos. ok=false: incomplete or malformed.
func readPkt(b []byte, pos int) (payload []byte, flush bool, next int, ok bool) {
	if pos+4 > len(b) {
		return nil, false, pos, false
	}
	n, err := strconv.ParseUint(string(b[pos:pos+4]), 16, 32)
	if err != nil {
		return nil, false, pos, false
	}
	if n == 0 {
		return nil, true, pos + 4, true
	}
	if n < 4 || pos+int(n) > len(b) {
		return nil, false, pos, false
	}
	return b[pos+4 : pos+int(n)], false, pos + int(n), true
}

// readList parses packets up to and including a flush; returns the text lines.
func readList(b []byte, pos int) (lines []string, next int, ok bool) {
	for {
		p, fl, n, k := readPkt(b, pos)
		if !k {
			return nil, pos, false
		}
		pos = n
		if fl {
			return lines, pos, true
		}
		lines = append(lines, strings.TrimSuffix(string(p), "\n"))
	}
}

// readContent parses content packets up to a flush.
func readContent(b []byte, pos int) (content []byte, next int, ok bool) {
	for {
		p, fl, n, k := readPkt(b, pos)
		if !k {
			return nil, pos, false
		}
		pos = n
		if fl {
			return content, pos, true
		}
		content = append(content, p...)
	}
}

// ---- the simulated Git peer ---------------------------------------------------

type fReq struct {
	Cmd       string // clean, smudge, list, retrieve
	Path      string
	Payload   []byte
	CanDelay  bool
	PktSize   int
	ObjIdx    int // smudge: which object the pointer names (-1: not a pointer)
	Expect    []byte
	ExpectErr bool // an error status is acceptable (scripted failure)
	// AnyOutcome: the payload is a pointer padded with white space to 1024
	// bytes or more; whether that is a pointer is not settled, so only the
	// well-formedness of the exchange (and of everything after it) is judged
	AnyOutcome bool
	// Orig: for a retrieval, the payload of the smudge request that was delayed
	Orig []byte
	// results
	Status1, Status2 string
	Content          []byte
	Delayed          bool
	Listed           []string
}

type gitPeer struct {
	rc       *RunCtx
	t        *sim.Tape
	out      bytes.Buffer
	outPos   int
	in       []byte
	state    int // 0 hello, 1 caps, 2 requests, 3 closed
	delayCap bool
	capsDone bool
	program  []*fReq
	pc       int
	last     *fReq
	done     []*fReq
	delayed  map[string]*fReq // delayed, not yet retrieved
	toFetch  []string         // announced, to be retrieved next
	announce map[string]int
	listing  bool
	lists    int
	rounds   int
	protoErr string
	// pendingOut: bytes written by the filter since the current request was handed over
	pendingOut int
	// neverAnnounced: an empty list arrived while blobs were still delayed
	neverAnnounced string
	objs           []*Obj
	failable       map[int]bool
}

// pipeCapacity: what an OS pipe holds before a writer blocks. Git writes a
// whole request before it reads anything, so a filter that answers while more
// than a pipe's worth of the request is still unread, and has itself written
// more than a pipe's worth, would leave both sides blocked for good.
const pipeCapacity = 65536

func (p *gitPeer) Write(b []byte) (int, error) {
	p.pendingOut += len(b)
	if len(p.in) > pipeCapacity && p.pendingOut > pipeCapacity && p.last != nil {
		p.fail("the filter wrote %d bytes of its answer to %s %q while %d bytes of the request were still unread: with pipes between Git and the filter both sides would block forever", p.pendingOut, p.last.Cmd, p.last.Path, len(p.in))
	}
	return p.out.Write(b)
}

func (p *gitPeer) fail(format string, a ...interface{}) {
	if p.protoErr == "" {
		p.protoErr = fmt.Sprintf(format, a...)
	}
}

func (p *gitPeer) Read(b []byte) (int, error) {
	if len(p.in) == 0 {
		p.advance()
	}
	if len(p.in) == 0 {
		return 0, io.EOF
	}
	n := copy(b, p.in)
	p.in = p.in[n:]
	return n, nil
}

func (p *gitPeer) encode(r *fReq) {
	p.pendingOut = 0
	var b []byte
	switch r.Cmd {
	case "clean":
		b = append(b, pktText("command=clean")...)
		b = append(b, pktText("pathname="+r.Path)...)
	case "smudge", "retrieve":
		b = append(b, pktText("command=smudge")...)
		b = append(b, pktText("pathname="+r.Path)...)
		if r.CanDelay {
			b = append(b, pktText("can-delay=1")...)
		}
	case "list":
		b = append(b, pktText("command=list_available_blobs")...)
		b = append(b, flushPkt...)
		p.in = b
		return
	}
	b = append(b, flushPkt...)
	ps := r.PktSize
	if ps <= 0 {
		ps = 65516
	}
	for i := 0; i < len(r.Payload); i += ps {
		e := i + ps
		if e > len(r.Payload) {
			e = len(r.Payload)
		}
		b = append(b, pkt(r.Payload[i:e])...)
	}
	b = append(b, flushPkt...)
	p.in = b
}

// parseResponse consumes the filter's answer to the last request.
func (p *gitPeer) parseResponse() bool {
	out := p.out.Bytes()
	r := p.last
	if r == nil {
		return true
	}
	pos := p.outPos
	bad := func(what string) bool {
		p.fail("response to %s %q is malformed (%s); bytes from offset %d: %q", r.Cmd, r.Path, what, p.outPos, clipS(string(out[p.outPos:]), 200))
		return false
	}
	if r.Cmd == "list" {
		lines, n, ok := readList(out, pos)
		if !ok {
			return bad("list not terminated by a flush packet")
		}
		for _, l := range lines {
			if !strings.HasPrefix(l, "pathname=") {
				return bad("list entry " + l)
			}
			r.Listed = append(r.Listed, strings.TrimPrefix(l, "pathname="))
		}
		// the filter lists left-over blobs in map order; Git does not care
		// about the order, and the simulation must not depend on it
		sort.Strings(r.Listed)
		st, n2, ok := readList(out, n)
		if !ok || len(st) != 1 || !strings.HasPrefix(st[0], "status=") {
			return bad("missing status list after the blob list")
		}
		r.Status1 = strings.TrimPrefix(st[0], "status=")
		pos = n2
	} else {
		st, n, ok := readList(out, pos)
		if !ok || len(st) != 1 || !strings.HasPrefix(st[0], "status=") {
			return bad("first status list")
		}
		r.Status1 = strings.TrimPrefix(st[0], "status=")
		pos = n
		switch r.Status1 {
		case "success":
			c, n2, ok := readContent(out, pos)
			if !ok {
				return bad("content not terminated by a flush packet")
			}
			r.Content = c
			st2, n3, ok := readList(out, n2)
			if !ok || len(st2) > 1 || (len(st2) == 1 && !strings.HasPrefix(st2[0], "status=")) {
				return bad("trailing status list")
			}
			r.Status2 = "success"
			if len(st2) == 1 {
				r.Status2 = strings.TrimPrefix(st2[0], "status=")
			}
			pos = n3
		case "delayed":
			r.Delayed = true
		case "error", "abort":
		default:
			return bad("unknown status " + r.Status1)
		}
	}
	if pos != len(out) {
		return bad(fmt.Sprintf("%d unexpected extra bytes after the response", len(out)-pos))
	}
	p.outPos = pos
	p.done = append(p.done, r)
	p.last = nil
	if os.Getenv("VERIF_DEBUG") != "" {
		fmt.Fprintf(os.Stderr, "PEER %s %s can-delay=%v -> %s/%s content=%dB listed=%v\n", r.Cmd, r.Path, r.CanDelay, r.Status1, r.Status2, len(r.Content), r.Listed)
	}
	return true
}

func (p *gitPeer) advance() {
	if p.protoErr != "" || p.state == 3 {
		p.state = 3
		return
	}
	out := p.out.Bytes()
	switch p.state {
	case 0:
		p.in = append(append(pktText("git-filter-client"), pktText("version=2")...), flushPkt...)
		p.state = 1
		return
	case 1:
		lines, n, ok := readList(out, p.outPos)
		if !ok || len(lines) != 2 || lines[0] != "git-filter-server" || lines[1] != "version=2" {
			p.fail("bad handshake answer %q", clipS(string(out), 100))
			p.state = 3
			return
		}
		p.outPos = n
		b := append(pktText("capability=clean"), pktText("capability=smudge")...)
		if p.delayCap {
			b = append(b, pktText("capability=delay")...)
		}
		p.in = append(b, flushPkt...)
		p.state = 2
		return
	case 2:
		if !p.capsDone {
			p.capsDone = true
			lines, n, ok := readList(out, p.outPos)
			if !ok {
				p.fail("bad capability answer %q", clipS(string(out[p.outPos:]), 100))
				p.state = 3
				return
			}
			for _, l := range lines {
				if l != "capability=clean" && l != "capability=smudge" && !(l == "capability=delay" && p.delayCap) {
					p.fail("filter announced capability %q which was not offered", l)
					p.state = 3
					return
				}
			}
			p.outPos = n
		}
	}
	if !p.parseResponse() {
		p.state = 3
		return
	}
	// bookkeeping of the response just parsed
	if n := len(p.done); n > 0 {
		r := p.done[n-1]
		switch {
		case r.Delayed:
			p.delayed[r.Path] = r
		case r.Cmd == "list":
			for _, path := range r.Listed {
				p.announce[path]++
				p.toFetch = append(p.toFetch, path)
			}
		}
	}
	// choose the next request
	var next *fReq
	switch {
	case len(p.toFetch) > 0:
		i := p.t.Choose(len(p.toFetch), "retrieve-order")
		path := p.toFetch[i]
		p.toFetch = append(p.toFetch[:i], p.toFetch[i+1:]...)
		orig := p.delayed[path]
		next = &fReq{Cmd: "retrieve", Path: path, ObjIdx: -1}
		if orig != nil {
			next.ObjIdx = orig.ObjIdx
			next.Expect = orig.Expect
			next.AnyOutcome = orig.AnyOutcome
			next.Orig = orig.Payload
			next.ExpectErr = orig.ExpectErr
			delete(p.delayed, path)
		}
	case p.listing:
		last := p.done[len(p.done)-1]
		if last.Cmd == "list" && len(last.Listed) == 0 {
			if len(p.delayed) > 0 && p.neverAnnounced == "" {
				p.neverAnnounced = fmt.Sprintf("list_available_blobs returned an empty list while %v were delayed and not yet announced", keysOf(p.delayed))
			}
			p.listing = false
			p.rounds++
			if p.pc < len(p.program) {
				next = p.program[p.pc]
				p.pc++
			}
		} else {
			p.lists++
			next = &fReq{Cmd: "list"}
		}
	case p.pc < len(p.program):
		next = p.program[p.pc]
		p.pc++
		// a program entry "list" starts the listing phase; Git only asks
		// for available blobs while some blob of this filter is delayed
		for next != nil && next.Cmd == "list" && len(p.delayed) == 0 {
			next = nil
			if p.pc < len(p.program) {
				next = p.program[p.pc]
				p.pc++
			}
		}
	}
	if next == nil && len(p.delayed) > 0 && p.delayCap && !p.listing && p.neverAnnounced == "" {
		next = &fReq{Cmd: "list"}
	}
	if next == nil {
		if os.Getenv("VERIF_DEBUG") != "" {
			fmt.Fprintf(os.Stderr, "PEER closes: pc=%d/%d delayed=%v listing=%v rounds=%d delayCap=%v\n", p.pc, len(p.program), keysOf(p.delayed), p.listing, p.rounds, p.delayCap)
		}
		p.state = 3
		return
	}
	if next.Cmd == "list" {
		p.listing = true
		p.lists++
		if p.lists > 60 {
			p.fail("list_available_blobs was answered %d times without the list becoming empty; outstanding %v", p.lists, keysOf(p.delayed))
			p.state = 3
			return
		}
	}
	p.last = next
	p.encode(next)
}

func keysOf(m map[string]*fReq) []string {
	var k []string
	for s := range m {
		k = append(k, s)
	}
	sort.Strings(k)
	return k
}

// ---- workload -------------------------------------------------------------------

func init() {
	Register("C14", func(rc *RunCtx) { runC14(rc, true) })
	Register("C14.nofault", func(rc *RunCtx) { runC14(rc, false) })
}

func runC14(rc *RunCtx, faults bool) {
	t := rc.Tape
	fx := getStreamFix()
	// objects
	nobj := 1 + t.Choose(5, "n-objs")
	objs := make([]*Obj, nobj)
	local := make([]bool, nobj)
	onServer := make([]bool, nobj)
	damaged := make([]bool, nobj)
	for i := range objs {
		sz := []int{10, 1, 1500, 70000, 200000}[t.Choose(5, "obj-size")]
		b := pseudo(sz, uint64(i+1)*977+uint64(sz), t.Choose(2, "obj-text") == 1)
		b[0] = byte('a' + i)
		objs[i] = &Obj{Idx: i, Data: b, Oid: sim.OidOf(b)}
		local[i] = t.Bool(1, 3, "obj-local")
		onServer[i] = !t.Bool(1, 8, "obj-missing-on-server")
		// a local copy may be damaged (stored at half its size)
		damaged[i] = local[i] && sz > 1 && t.Bool(1, 8, "obj-local-damaged")
	}
	localFailure := false
	var f sim.Faults
	if faults {
		f.Get5xx = pickRate(t, "get5xx", 1, 4)
		f.Get4xx = pickRate(t, "get4xx", 1, 6)
		f.GetFlip = pickRate(t, "getflip", 1, 6)
		f.GetCut = pickRate(t, "getcut", 1, 6)
		f.ObjError = pickRate(t, "objerror", 1, 6)
		f.Batch5xx = pickRate(t, "batch5xx", 1, 8)
		f.GetBurst = pickRate(t, "getburst", 1, 4)
	}
	delayCap := t.Choose(4, "delay-cap") != 0
	skipErrs := t.Choose(3, "skipdownloaderrors") == 0
	batchSize := []int{100, 1, 2}[t.Choose(3, "batch-size")]
	conc := []int{3, 1, 8}[t.Choose(3, "concurrency")]
	// repository config (read by config.NewIn through git)
	os.RemoveAll(filepath.Join(fx.git, "lfs"))
	cfgText := fmt.Sprintf("[core]\n\trepositoryformatversion = 0\n\tbare = false\n[remote \"origin\"]\n\turl = https://api.sim/repo.git\n\tfetch = +refs/heads/*:refs/remotes/origin/*\n[lfs]\n\tconcurrenttransfers = %d\n\tskipdownloaderrors = %v\n[lfs \"transfer\"]\n\tmaxretries = 2\n\tmaxretrydelay = 0\n\tbatchsize = %d\n", conc, skipErrs, batchSize)
	os.WriteFile(filepath.Join(fx.git, "config"), []byte(cfgText), 0644)
	os.Chdir(fx.work)
	cfg := config.NewIn(fx.work, fx.git)
	commands.VerifSetConfig(cfg)

	w := NewWorld(rc, f)
	s := w.S
	s.Mode = []int{sim.ModeUniform, sim.ModePCT, sim.ModeStarve}[t.Choose(3, "sched-mode")]
	if s.Mode == sim.ModeStarve {
		s.StarveSub = []string{"main", "handler", "worker", "collect", "filter"}[t.Choose(5, "starve")]
	}
	w.Net.LatencyMaxMs = []int{0, 5, 400}[t.Choose(3, "latency")]
	for i, o := range objs {
		if onServer[i] {
			w.Srv.Store[o.Oid] = o.Data
		}
		if local[i] {
			p, _ := cfg.Filesystem().ObjectPath(o.Oid)
			if damaged[i] {
				os.WriteFile(p, o.Data[:len(o.Data)/2], 0644)
			} else {
				os.WriteFile(p, o.Data, 0644)
			}
		}
	}
	peer := &gitPeer{rc: rc, t: t, delayCap: delayCap, delayed: map[string]*fReq{}, announce: map[string]int{}, objs: objs}
	// program
	nreq := 1 + t.Choose(12, "n-requests")
	if t.Bool(1, 6, "long-program") {
		nreq = 20 + t.Choose(21, "n-requests-long")
	}
	usedPath := map[string]bool{}
	for i := 0; i < nreq; i++ {
		r := &fReq{Path: fmt.Sprintf("dir/f%d.bin", i), ObjIdx: -1}
		// Git hands path names over verbatim: white space at either end,
		// '=' and other bytes are part of the name
		switch t.Choose(12, "path-form") {
		case 1:
			r.Path = fmt.Sprintf("dir/trail%d ", i)
		case 2:
			r.Path = fmt.Sprintf(" lead%d.bin", i)
		case 3:
			r.Path = fmt.Sprintf("x%d\t", i)
		case 4:
			r.Path = fmt.Sprintf("a=b/c%d=d.bin", i)
		case 5:
			// differs from another request's name only by trailing white space
			r.Path = fmt.Sprintf("dir/f%d.bin ", (i+1)%nreq)
		}
		usedPath[r.Path] = true
		r.PktSize = []int{65516, 1, 7, 100, 1000, 65515, 32768}[t.Choose(7, "pkt-size")]
		switch t.Choose(5, "req-kind") {
		case 0, 1:
			r.Cmd = "clean"
			var data []byte
			if t.Choose(2, "clean-class") == 0 {
				data, _, _ = GenPointerish(t)
			} else {
				data, _, _ = GenContent(t)
				if len(data) > 400000 {
					data = data[:400000]
				}
			}
			if r.PktSize == 1 && len(data) > 3000 {
				r.PktSize = 13
			}
			r.Payload = data
			if pointerUnspecified(data) {
				data = []byte("content, not a pointer\n")
				r.Payload = data
			}
			if isWholePointer(data) || len(data) == 0 {
				r.Expect = data
			} else {
				r.Expect = []byte(canonicalPointer(sim.OidOf(data), int64(len(data))))
			}
		default:
			r.Cmd = "smudge"
			// Git only sends can-delay=1 to a filter that announced the
			// delay capability
			r.CanDelay = t.Choose(2, "can-delay") == 1 && delayCap
			if t.Bool(1, 6, "smudge-non-pointer") {
				data, _, _ := GenPointerish(t)
				if sim.RefPointer(data) != sim.PtrNo || len(data) == 0 {
					data = append([]byte("plain text, "), data...)
				}
				if len(data) >= 1024 && sim.RefPointer(bytes.TrimSpace(data[:1024])) != sim.PtrNo {
					data = []byte("definitely not a pointer\n")
				}
				r.Payload = data
				r.Expect = data
			} else {
				oi := t.Choose(nobj, "smudge-obj")
				r.ObjIdx = oi
				r.Payload = []byte(canonicalPointer(objs[oi].Oid, int64(len(objs[oi].Data))))
				r.Expect = objs[oi].Data
				r.ExpectErr = !local[oi] && (!onServer[oi] || faults)
				if damaged[oi] {
					// a damaged local copy: an error answer is fine, wrong content is not
					r.ExpectErr = true
					localFailure = true
				}
				if local[oi] && t.Bool(1, 12, "smudge-pointer-with-unconfigured-extension") {
					// the object is there but cannot be written out
					r.Payload = []byte(fmt.Sprintf("version https://git-lfs.github.com/spec/v1\next-0-nosuchext sha256:%s\noid sha256:%s\nsize %d\n", sim.OidOf([]byte("pre-extension")), objs[oi].Oid, len(objs[oi].Data)))
					r.ExpectErr = true
					localFailure = true
				} else if t.Bool(1, 12, "smudge-pointer-padded-beyond-1024") {
					total := []int{1024, 1025, 1500, 70000}[t.Choose(4, "padded-total")]
					pad := []string{" ", "\n"}[t.Choose(2, "pad-char")]
					r.Payload = append(r.Payload, []byte(strings.Repeat(pad, total-len(r.Payload)))...)
					// 1024 bytes or longer: content, passed through unchanged
					r.ObjIdx = -1
					r.Expect = r.Payload
					r.ExpectErr = false
				}
			}
		}
		peer.program = append(peer.program, r)
		if delayCap && t.Bool(1, 8, "list-midway") {
			peer.program = append(peer.program, &fReq{Cmd: "list"})
		}
	}

	var stderr bytes.Buffer
	exited, exitCode := false, 0
	verifhook.StdioFn = func() verifhook.StdioSet { return verifhook.StdioSet{Stdin: peer, Stdout: peer, Stderr: &stderr} }
	defer func() { verifhook.StdioFn = nil; verifhook.ExitFn = nil }()
	s.Run(func() {
		s.Phase = "filter-process"
		exited, exitCode = callExit(func() { commands.VerifFilterProcess(false) })
		s.Phase = "returned"
	})
	rc.Res.Fired = map[string]int{}
	for k, v := range w.Srv.Fired {
		rc.Res.Fired[k] = v
	}
	rc.Res.Nontrivial = true
	for _, r := range peer.done {
		rc.Tape.Note(fmt.Sprintf("%s %s %s %s %d %v", r.Cmd, r.Path, r.Status1, r.Status2, len(r.Content), r.Listed))
	}
	if rc.Opts.WantSample {
		var prog []string
		for _, r := range peer.done {
			prog = append(prog, fmt.Sprintf("%s %s payload=%dB pkt=%d can-delay=%v -> %s/%s content=%dB listed=%v", r.Cmd, r.Path, len(r.Payload), r.PktSize, r.CanDelay, r.Status1, r.Status2, len(r.Content), r.Listed))
		}
		if len(prog) > 60 {
			prog = append(append([]string{}, prog[:10]...), prog[len(prog)-50:]...)
		}
		rc.Res.Sample = map[string]interface{}{"delay_capability": delayCap, "objects": nobj, "skipdownloaderrors": skipErrs, "batch_size": batchSize, "exchange": prog, "exited": exited, "fired": rc.Res.Fired}
	}
	if kind, msg := s.Failure(); kind != "" {
		rc.Violation(kind, "filter-process did not finish: %s; last request %v; parked=%v", msg, describeReq(peer.last), s.ParkedNames())
		return
	}
	if rc.Res.Harness != "" {
		return
	}

	// ---- oracle ---------------------------------------------------------------------
	downloadFailed := false
	for _, e := range w.Net.Log {
		if (e.Kind == "download" || e.Kind == "batch") && (e.Status >= 400 || strings.Contains(e.Note, "bitflip") || strings.Contains(e.Note, "read-error") || strings.Contains(e.Note, "cut")) {
			downloadFailed = true
		}
	}
	for _, b := range w.Srv.Batches {
		for _, sh := range b.Shapes {
			if sh == "error" {
				downloadFailed = true
			}
		}
	}
	if exited {
		rc.Probe("process-exit")
		if !(exitCode == 2 && (downloadFailed || localFailure) && !skipErrs) {
			rc.Violation("filter-exited", "filter-process ended with status %d (download failure scripted: %v, lfs.skipdownloaderrors=%v); stderr: %s", exitCode, downloadFailed || localFailure, skipErrs, clipS(stderr.String(), 300))
			return
		}
	}
	if peer.protoErr != "" {
		rc.Violation("protocol", "%s", peer.protoErr)
		return
	}
	for _, r := range peer.done {
		switch r.Cmd {
		case "clean":
			rc.Probe("clean-checked")
			if r.Status1 != "success" || r.Status2 != "success" {
				rc.Violation("clean-status", "clean of %s (%d bytes, packets of %d) answered status %s/%s", r.Path, len(r.Payload), r.PktSize, r.Status1, r.Status2)
				return
			}
			if !bytes.Equal(r.Content, r.Expect) {
				rc.Violation("clean-content", "clean of %s (%d bytes, packets of %d bytes) returned %d bytes %q; the one-shot filter's answer is %d bytes %q", r.Path, len(r.Payload), r.PktSize, len(r.Content), clipS(string(r.Content), 100), len(r.Expect), clipS(string(r.Expect), 100))
				return
			}
		case "smudge", "retrieve":
			if r.AnyOutcome {
				rc.Probe("smudge-padded-pointer")
				continue
			}
			if r.Delayed {
				rc.Probe("delayed")
				if !r.CanDelay || !delayCap {
					rc.Violation("delayed-without-permission", "smudge of %s was delayed although can-delay=%v, delay capability=%v", r.Path, r.CanDelay, delayCap)
					return
				}
				continue
			}
			okStatus := r.Status1 == "success" && r.Status2 == "success"
			if !okStatus {
				rc.Probe("smudge-error-status")
				if r.ObjIdx < 0 || !(r.ExpectErr || downloadFailed) {
					rc.Violation("smudge-status", "%s of %s answered status %s/%s although nothing was scripted to fail", r.Cmd, r.Path, r.Status1, r.Status2)
					return
				}
				continue
			}
			rc.Probe("smudge-content-checked")
			if bytes.Equal(r.Content, r.Expect) {
				continue
			}
			// a pointer handed back instead of content is legal only when the download failed and errors are skipped
			if r.ObjIdx >= 0 && skipErrs && (r.ExpectErr || downloadFailed) && (bytes.Equal(r.Content, []byte(canonicalPointer(objs[r.ObjIdx].Oid, int64(len(objs[r.ObjIdx].Data))))) || (r.Cmd == "smudge" && bytes.Equal(r.Content, r.Payload)) || (r.Cmd == "retrieve" && bytes.Equal(r.Content, r.Orig))) {
				rc.Probe("pointer-left-after-skipped-error")
				continue
			}
			rc.Violation("smudge-content", "%s of %s returned %d bytes (sha %s) with status success; expected the %d bytes of the object / input (sha %s)", r.Cmd, r.Path, len(r.Content), short(sim.OidOf(r.Content)), len(r.Expect), short(sim.OidOf(r.Expect)))
			return
		case "list":
			rc.Probe("list-checked")
			if r.Status1 != "success" {
				rc.Violation("list-status", "list_available_blobs answered status %s", r.Status1)
				return
			}
		}
	}
	// announcements
	everDelayed := map[string]bool{}
	for _, r := range peer.done {
		if r.Delayed {
			everDelayed[r.Path] = true
		}
	}
	for path, n := range peer.announce {
		if !everDelayed[path] {
			rc.Violation("phantom-announcement", "list_available_blobs announced %q which was never delayed", path)
			return
		}
		if n > 1 {
			// re-announcement is tolerated only after a failed retrieval
			failed := false
			for _, r := range peer.done {
				if r.Cmd == "retrieve" && r.Path == path && !(r.Status1 == "success" && r.Status2 == "success") {
					failed = true
				}
			}
			if !failed {
				rc.Violation("announced-twice", "delayed blob %q was announced %d times by list_available_blobs", path, n)
				return
			}
		}
	}
	if peer.neverAnnounced != "" {
		rc.Violation("delayed-never-announced", "%s", peer.neverAnnounced)
		return
	}
	if len(everDelayed) > 0 && !exited {
		rc.Probe("delay-cycle-completed")
	}
}

func describeReq(r *fReq) string {
	if r == nil {
		return "<none>"
	}
	return fmt.Sprintf("%s %s", r.Cmd, r.Path)
}
